"""C16 - memory-optimised runs give the direct results and keep only the targets.

Workload: generated dependency-DAG models (mxv/c16_gen.py: random / chain / layered / stock
families over three spaces with cross-space calls, zero-, one- and two-parameter cells,
self recursion, uncached cells, pre-existing inputs; in one model of ten space B is
parametrised, so that formulas create ItemSpaces and targets live inside them) and models from the shared formula
grammar (mxv/gen.py: nesting, inheritance, references); per model a handful of candidate
target elements (biased towards elements that depend on each other), every non-empty
subset of them up to size 3 in several listing orders, and for each ordered target list
**every step size from 1 to |closure| + 2**.  Some runs start from a model that already
holds unrelated calculated values.

Oracles
  * direct evaluation on a twin model built from the same ops (deciding) and the reference
    evaluator (second opinion, agreement rate reported) for the target values;
  * the probe log for "no element computed twice during execute_actions";
  * dict(cells) of every cells before / after generate_actions / after execute_actions for
    "nothing else left behind";
  * the ground-truth dependency relation recorded by the reference evaluator (cross-checked
    against the call tree the twin's probe saw) for "every element of the closure in exactly
    one calc step, after everything it depends on".
"""
import collections
import itertools
import random

from .. import env
from ..mxutil import mx, reset_session, sanity, walk_spaces, Inconclusive
from ..live import World
from ..gen import ModelGen
from .. import refmodel as R
from ..c16_gen import DagGen, FAMILIES, steps_of

ID = "C16"
LEVEL = "exploration"
RULE = ("seeded models: DAG families random/chain/layered/stock (3 spaces, cross-space calls through object "
        "references and attribute paths, 0-2 parameters, self recursion, optional uncached cells, optional inputs, "
        "in 1 of 10 one space parametrised so that formulas create and use ItemSpaces) "
        "and formula-grammar models (nesting, inheritance, references); per model 3-5 candidate targets, all their "
        "non-empty subsets up to size 3 (plus the full set) in 1/2/2-6 listing orders, and for every ordered target "
        "list every step size 1..|closure|+2 on the same model (state restored and verified between runs), "
        "optionally with unrelated calculated values held beforehand; one evaluation = one "
        "generate_actions+execute_actions run; non-trivial = the closure has >= 2 calculated elements; distinct = "
        "distinct (model seed, ordered target list, step size, pre-held set)")
ASSUMPTIONS = [
    "'element the targets depend on' = element whose formula runs when the targets are evaluated directly on the "
    "model as it stands (inputs are not calculated, so they are not required in a calc step)",
    "elements of uncached cells hold no value and run on every call by definition: they are not required in calc "
    "steps, are not subject to 'computed twice', and dependencies are followed through them; targets are always "
    "elements of cached cells",
    "values held before generate_actions are either inputs or calculated values unrelated to the targets "
    "(closures disjoint); 'left behind' is judged against the keys held before the run",
    "targets are distinct elements (a set), listed in arbitrary order",
    "nodes of the action list that denote ItemSpaces (not cells elements) are counted and otherwise ignored; cells "
    "values inside live ItemSpaces are part of the held state that is compared",
    "gc.freeze() is called once per worker before the first model is built (execute_actions runs gc.collect() after "
    "every clear step; freezing the import-time heap only makes those collections cheaper)",
    "reference evaluator mxv/refmodel.py supplies the ground-truth call relation; it is cross-checked against "
    "the call tree observed by the probe on a twin model and any disagreement makes the case inconclusive",
]
MIN_COUNTERS = {
    "quick": {"runs": 50000, "target_value_checks": 100000, "leftover_checks": 150000, "twice_checks": 300000,
              "calc_membership_checks": 300000, "order_checks": 300000, "generate_residue_checks": 50000,
              "runs_multi_block": 30000, "runs_carry_2plus_blocks": 10000, "runs_dependent_listed_first": 15000,
              "runs_preheld": 10000, "runs_with_inputs": 7000, "runs_step_beyond": 12000,
              "runs_target_is_input": 3000, "runs_with_uncached": 4000, "runs_in_itemspace_models": 4000},
    "thorough": {"runs": 600000, "target_value_checks": 1200000, "leftover_checks": 2000000,
                 "twice_checks": 4000000, "calc_membership_checks": 4000000, "order_checks": 4000000,
                 "generate_residue_checks": 600000, "runs_multi_block": 350000, "runs_carry_2plus_blocks": 120000,
                 "runs_dependent_listed_first": 150000, "runs_preheld": 100000, "runs_with_inputs": 80000,
                 "runs_step_beyond": 120000, "runs_target_is_input": 30000, "runs_with_uncached": 40000,
                 "runs_in_itemspace_models": 40000},
}
SHARD_TIMEOUT = {"quick": 600, "thorough": 3600}
CHUNK = {"quick": 10, "thorough": 16}      # cases per worker process: small shards balance the uneven case costs
ITEM_ARGS = [1, 2]


# =========================================================================== cases
def gen_cases(tier, seed):
    n = 900 if tier == "quick" else 4000
    for j in range(len(DIRECTED)):
        yield {"id": "d%d" % j, "kind": "directed", "which": j, "seed": env.derive_seed(seed, ID, "d", j),
               "tier": tier}
    for i in range(n):
        r = i % 10
        if r < 7:
            fam = FAMILIES[i % 7 % 4] if r != 6 else "chain"
            kind = "dag:" + fam
        else:
            kind = "grammar"
        yield {"id": "m%d" % i, "kind": kind, "seed": env.derive_seed(seed, ID, i), "tier": tier,
               "uncached": 0.15 if i % 4 == 3 else 0.0, "inheritance": i % 2 == 0,
               "item": kind.startswith("dag:") and i % 10 == 5}


def _stock(depth):
    ops = [{"op": "new_space", "name": "A"},
           {"op": "new_cells", "space": "A", "name": "Cells1", "params": [], "body": "1"},
           {"op": "new_cells", "space": "A", "name": "Cells2", "params": [["x", None]],
            "body": "(Cells2(x - 1) if x > 0 else Cells1())"},
           {"op": "new_cells", "space": "A", "name": "Cells3", "params": [["x", None]],
            "body": "Cells1() + Cells2(x)"}]
    return ops


def _t(path, name, *args):
    return [steps_of(path), name, list(args)]


# directed cases: the repository's documented example at several depths with the targets the
# documentation uses, a diamond, and two mutually dependent targets in both listing orders
DIRECTED = [
    {"ops": _stock(2), "domain": [0, 1, 2],
     "runs": [{"targets": [_t("A", "Cells3", 2)], "pre": [], "steps": None},
              {"targets": [_t("A", "Cells3", 2), _t("A", "Cells2", 1)], "pre": [], "steps": None},
              {"targets": [_t("A", "Cells2", 1), _t("A", "Cells3", 2)], "pre": [], "steps": None},
              {"targets": [_t("A", "Cells3", 2), _t("A", "Cells1")], "pre": [], "steps": None},
              {"targets": [_t("A", "Cells3", 1)], "pre": [_t("A", "Cells3", 0)], "steps": None}]},
    {"ops": _stock(7), "domain": list(range(8)),
     "runs": [{"targets": [_t("A", "Cells3", 7)], "pre": [], "steps": None},
              {"targets": [_t("A", "Cells3", 7), _t("A", "Cells3", 3), _t("A", "Cells2", 5)], "pre": [],
               "steps": None}]},
    {"ops": [{"op": "new_space", "name": "A"},
             {"op": "new_cells", "space": "A", "name": "a", "params": [["x", None]], "body": "x + 1"},
             {"op": "new_cells", "space": "A", "name": "l", "params": [["x", None]], "body": "a(x) * 2"},
             {"op": "new_cells", "space": "A", "name": "r", "params": [["x", None]], "body": "a(x) * 3"},
             {"op": "new_cells", "space": "A", "name": "d", "params": [["x", None]], "body": "l(x) + r(x) + a(0)"}],
     "domain": [0, 1, 2],
     "runs": [{"targets": [_t("A", "d", 2)], "pre": [], "steps": None},
              {"targets": [_t("A", "d", 2), _t("A", "l", 2)], "pre": [], "steps": None},
              {"targets": [_t("A", "r", 2), _t("A", "d", 2), _t("A", "a", 0)], "pre": [], "steps": None},
              {"targets": [_t("A", "d", 1)], "pre": [_t("A", "d", 2)], "steps": None}]},
]


def expand(case):
    if "ops" in case:
        return case
    c = dict(case)
    rnd = random.Random(case["seed"])
    kind = case["kind"]
    if kind == "directed":
        d = DIRECTED[case["which"]]
        c.update(ops=d["ops"], domain=d["domain"], runs=d["runs"])
        return c
    if kind.startswith("dag:"):
        g = DagGen(rnd, kind[4:], uncached=case.get("uncached", 0.0), item=case.get("item", False)).build()
        ops, domain = g.ops, g.domain
    else:
        g = ModelGen(rnd, itemspaces=False, inheritance=case.get("inheritance", True),
                     uncached=case.get("uncached", 0.0) or 0.1, max_cells=4)
        g.f["none_values"] = False
        g.build()
        ops, domain = g.ops, [0, 1, 2]
    rm = R.RModel("M")
    inputs = {}
    for op in ops:
        R.apply_op(rm, op, inputs)
    truth = Truth(rm, inputs, domain)
    c.update(ops=ops, domain=domain, runs=plan_runs(truth, rnd, case.get("tier", "quick")))
    return c


# =========================================================================== ground truth
class Truth:
    """reference evaluation of the whole element universe: values, calculated elements, direct calls"""

    def __init__(self, rm, inputs, domain, mname="M"):
        self.rm = rm
        ev = self.ev = R.Evaluator(rm, mname)
        for (path, cname, key), v in inputs.items():
            try:
                sp = rm.get(path)
            except KeyError:
                continue
            ev.inputs[(("s", id(sp)), cname, key)] = v
        self.info = collections.OrderedDict()     # el -> dict(steps, name, args, cached, input, value|None, ok)
        insts = []
        for sp in rm.walk():
            if any(a.formula is not None for a in R._ancestors(sp)):
                continue
            if sp.formula is None:
                insts.append((sp, steps_of(sp.path())))
            else:
                # a parametrised space: its ItemSpaces for two argument values (one parameter, no children)
                for a in ITEM_ARGS:
                    insts.append((sp, steps_of(sp.path()) + [["i", [a]]]))
        for sp, steps in insts:
            try:
                inst = ev.inst_from_steps(steps)
                mem = R.members(sp)["cells"]
            except (TypeError, R.RefError):
                continue
            for cname, (_d, cd) in mem.items():
                np_ = len(cd.params)
                arglists = [[]] if np_ == 0 else [[x] for x in domain]
                if np_ == 2:
                    arglists = arglists + [[x, 2] for x in domain]
                # every assigned element belongs to the universe, whatever its arguments
                for (ipath, iname, ikey) in inputs:
                    if iname == cname and steps == steps_of(ipath) and list(ikey) not in arglists:
                        arglists.append(list(ikey))
                for args in arglists:
                    try:
                        key = cd.bind(tuple(args), {})
                    except TypeError:
                        continue
                    el = ev.element(inst, cname, key)
                    if el in self.info:
                        continue
                    is_in = (inst.key(), cname, key) in ev.inputs
                    ok, value = True, None
                    try:
                        value = R.canon_ref(ev.evaluate(inst, cname, tuple(args)))
                    except Exception:      # noqa  the formula's own failure, or outside the reference's domain
                        ok = False
                    self.info[el] = {"steps": steps, "name": cname, "args": list(args), "cached": cd.cached,
                                     "input": is_in, "value": value, "ok": ok}
        self.calls = {el: list(cs) for el, cs in ev.calls.items()}       # calculated elements only
        self.cached = {}
        for el, i in self.info.items():
            self.cached[el] = i["cached"]
        self._closure = {}
        self._deps = {}

    def is_cached(self, el):
        c = self.cached.get(el)
        if c is None:
            # an element outside the enumerated universe (other argument values): look its cells up
            for k, i in self.info.items():
                if k[0] == el[0] and k[1] == el[1]:
                    c = i["cached"]
                    break
            self.cached[el] = c
        return c

    def closure(self, el):
        """calculated elements (cached and uncached) whose formulas run when `el` is evaluated on the model
        holding only its inputs, `el` included; empty for an input"""
        if el in self._closure:
            return self._closure[el]
        out = set()
        if el in self.calls:
            st = [el]
            while st:
                e = st.pop()
                if e in out or e not in self.calls:     # not calculated: an input
                    continue
                out.add(e)
                st.extend(self.calls[e])
        self._closure[el] = frozenset(out)
        return self._closure[el]

    def deps(self, el):
        """cached calculated elements `el` depends on directly or through uncached elements only"""
        if el in self._deps:
            return self._deps[el]
        out, seen = set(), set()
        st = list(self.calls.get(el, ()))
        while st:
            e = st.pop()
            if e in seen or e not in self.calls:
                continue
            seen.add(e)
            if self.is_cached(e):
                out.add(e)
            else:
                st.extend(self.calls[e])
        self._deps[el] = out
        return out

    def good(self, el):
        """usable as target: cached cells, evaluates without error, and so does everything below it"""
        i = self.info.get(el)
        return bool(i and i["ok"] and i["cached"])

    def el_of(self, t):
        """element of a target description [steps, name, args] or None"""
        steps, name, args = t
        for el, i in self.info.items():
            if i["steps"] == steps and i["name"] == name and i["args"] == list(args):
                return el
        return None


def plan_runs(truth, rnd, tier):
    """ordered target lists (with optional pre-held unrelated elements) for one model"""
    good = [el for el in truth.info if truth.good(el)]
    if not good:
        return []
    size = {el: len(truth.closure(el)) for el in good}
    ranked = sorted(good, key=lambda e: -size[e])
    ncand = rnd.choice([3, 4, 4] if tier == "quick" else [4, 4, 5])
    cands = []
    top = ranked[: max(1, len(ranked) // 3)]
    first = rnd.choice(top)
    cands.append(first)
    below = [e for e in truth.closure(first) if e != first and truth.good(e)]
    if below and rnd.random() < 0.85:
        cands.append(rnd.choice(sorted(below)))
    inputs = [e for e in good if truth.info[e]["input"]]
    if inputs and rnd.random() < 0.3:
        e = rnd.choice(inputs)
        if e not in cands:
            cands.append(e)
    pool = [e for e in good if e not in cands]
    rnd.shuffle(pool)
    # prefer further candidates that are not trivial leaves
    pool.sort(key=lambda e: 0 if size[e] >= 2 else 1)
    while len(cands) < ncand and pool:
        cands.append(pool.pop(0) if rnd.random() < 0.7 else pool.pop(rnd.randrange(len(pool))))
    lists = []
    for k in (1, 2, 3):
        for sub in itertools.combinations(cands, k):
            if k == 1:
                lists.append(list(sub))
            elif k == 2:
                lists.append(list(sub))
                lists.append(list(reversed(sub)))
            else:
                perms = list(itertools.permutations(sub))
                if tier == "quick":
                    # dependents first (the order in which later targets are already computed), plus one more
                    dep_first = tuple(sorted(sub, key=lambda e: (-size[e], e)))
                    chosen = [dep_first, rnd.choice(perms)]
                else:
                    chosen = perms
                seen = set()
                for p in chosen:
                    if p not in seen:
                        seen.add(p)
                        lists.append(list(p))
    if len(cands) > 3:
        full = list(cands)
        rnd.shuffle(full)
        lists.append(full)
    # budget: every list costs |closure| + 2 runs; keep the model's total bounded, dropping lists at random
    budget = 400 if tier == "quick" else 700
    cost = lambda l: len(set().union(*[truth.closure(e) for e in l])) + 2      # noqa: E731
    total = sum(cost(l) for l in lists)
    while total > budget and len(lists) > 3:
        l = lists.pop(rnd.randrange(len(lists)))
        total -= cost(l)
    runs = []
    for l in lists:
        clo = set().union(*[truth.closure(e) for e in l])
        pre = []
        if rnd.random() < 0.3:
            unrelated = [e for e in good if e not in l and truth.closure(e) and not (truth.closure(e) & clo)]
            if unrelated:
                pre = rnd.sample(unrelated, min(len(unrelated), rnd.randint(1, 2)))
        runs.append({"targets": [_desc(truth, e) for e in l], "pre": [_desc(truth, e) for e in pre], "steps": None})
    return runs


def _desc(truth, el):
    i = truth.info[el]
    return [i["steps"], i["name"], i["args"]]


# =========================================================================== live observation
def key_tuple(cells, k):
    n = len(cells.parameters)
    if n == 0:
        return ()
    if n == 1:
        return (k,)
    return tuple(k)


def walk_all(model):
    """static spaces, their live ItemSpaces and the dynamic spaces below those"""
    st = list(model.spaces.values())
    while st:
        s = st.pop()
        yield s
        st.extend(s.spaces.values())
        try:
            st.extend(s.itemspaces.values())
        except AttributeError:
            pass


def held_state(model):
    """{(space evalrepr, cells name, key tuple): value} of everything held in static spaces and live ItemSpaces"""
    out = {}
    for s in walk_all(model):
        rep = s._evalrepr
        for c in s.cells.values():
            for k, v in dict(c).items():
                out[(rep, c.name, key_tuple(c, k))] = v
    return out


def node_element(n):
    obj = n.obj
    if isinstance(obj, mx.core.cells.Cells):
        return (obj.parent._evalrepr, obj.name, tuple(n.args))
    return None


def jel(el):
    return [el[0], el[1], list(el[2])]


def build_world(ops, name, refmodel):
    w = World(name, refmodel=refmodel)
    rej = 0
    for op in ops:
        r = w.apply(op)
        if r[0] == "rej":
            rej += 1
    return w, rej


def twin_truth(ops, truth, cnt):
    """direct evaluation of every usable element on a twin model; cross-checks the reference's call relation
    against what the probe saw.  returns {el: canonical value}"""
    t, _ = build_world(ops, "T", False)
    direct = {}

    def tw(el):
        return ("M" + el[0][1:], el[1], el[2])

    for el, i in truth.info.items():
        if not i["ok"]:
            continue
        v = t.live_value(i["steps"], i["name"], i["args"])
        direct[el] = v
        cnt["ref_compared"] += 1
        if _norm(v) == _norm(i["value"]):
            cnt["ref_agreed"] += 1
    # the probe's view: which elements ran, and who called whom (first calls only)
    entered = collections.Counter()
    stack = []
    for e in t.probe.log:
        el = tw(e[1:4])
        if e[0] == "E":
            entered[el] += 1
            if stack:
                cnt["twin_edges_checked"] += 1
                if el not in truth.calls.get(stack[-1], ()):
                    raise Inconclusive("ground-truth recorders disagree: probe saw %r call %r" % (stack[-1], el))
            stack.append(el)
        else:
            while stack and stack[-1] != el:
                stack.pop()
            if stack:
                stack.pop()
    expect = set()
    for el, i in truth.info.items():
        if i["ok"]:
            expect |= truth.closure(el)
    if set(entered) != expect:
        raise Inconclusive("ground-truth recorders disagree on the calculated elements: %r" % (
            sorted(set(entered) ^ expect)[:4],))
    for el, k in entered.items():
        if k > 1 and truth.is_cached(el):
            raise Inconclusive("twin computed %r %d times on direct evaluation" % (el, k))
    try:
        t.m.close()
    except Exception:      # noqa
        pass
    return direct


def _norm(v):
    if isinstance(v, tuple):
        return list(v)
    return v


BASE_COUNTERS = ["runs", "cases_with_runs", "target_lists", "build_rejected", "rebuilds", "runs_skipped",
                 "generate_residue_checks", "calc_membership_checks", "order_checks", "twice_checks",
                 "target_value_checks", "leftover_checks", "enter_events_generate", "enter_events_execute",
                 "calc_steps", "paste_nodes", "clear_nodes", "extra_calc_nodes", "space_nodes",
                 "ref_compared", "ref_agreed", "twin_edges_checked",
                 "runs_multi_block", "runs_carry_2plus_blocks", "runs_dependent_listed_first", "runs_preheld",
                 "runs_with_inputs", "runs_step_beyond", "runs_target_is_input", "runs_with_uncached",
                 "runs_targets_dependent", "targets_pasted_as_input", "sanity_checks", "nodes_by_keyword",
                 "target_lists_all_steps", "step_sizes_enumerated", "runs_in_itemspace_models",
                 "twice_unclassified"]


_FROZEN = False


def _freeze_heap():
    """execute_actions calls gc.collect() after every clear step; a full collection walks the whole heap
    (modelx, networkx, asttokens ... ~8 ms).  Moving what exists *before the first model is built* to the
    permanent generation makes those collections cheap without touching the library or the objects of any
    case (they are all created later and stay collectable)."""
    global _FROZEN
    if not _FROZEN:
        import gc
        gc.collect()
        gc.freeze()
        _FROZEN = True


def run_case(case):
    _freeze_heap()
    case = expand(case)
    cnt = collections.Counter({k: 0 for k in BASE_COUNTERS})
    matrix = {"family x targets": collections.Counter(), "step position x blocks": collections.Counter(),
              "target relation": collections.Counter(), "closure size": collections.Counter()}
    vio = []
    shapes = []
    sample = None
    fam = case.get("kind", "replay") + ("+itemspaces" if case.get("item") else "")
    ops = [op for op in case["ops"]]
    reset_session()
    w, rej = build_world(ops, "M", True)
    cnt["build_rejected"] = rej
    truth = Truth(w.rm, w.inputs, case["domain"])
    if not case.get("runs"):
        return {"status": "vacuous", "counters": dict(cnt), "nontrivial": False, "case": case}
    direct = twin_truth(ops, truth, cnt)
    base = held_state(w.m)          # the inputs
    for el in base:
        if el not in truth.info or not truth.info[el]["input"]:
            raise Inconclusive("freshly built model holds %r which the reference does not know as an input" % (el,))

    def V(kind, sig, **d):
        vio.append({"kind": kind, "signature": sig, "detail": d})

    def live_cells(i):
        return w.live_inst(i["steps"]).cells[i["name"]]

    nontrivial = 0
    for ri, run in enumerate(case["runs"]):
        tels = [truth.el_of(t) for t in run["targets"]]
        if any(e is None or not truth.good(e) or isinstance(direct.get(e), tuple) and direct[e][:1] == ("ERR",)
               for e in tels) or len(set(tels)) != len(tels):
            cnt["runs_skipped"] += 1
            continue
        pels = [truth.el_of(t) for t in run.get("pre") or []]
        clo = set().union(*[truth.closure(e) for e in tels])
        pels = [e for e in pels if e is not None and truth.good(e) and not (truth.closure(e) & clo)]
        must = {e for e in clo if truth.is_cached(e)}
        n = len(must)
        steps = run.get("steps") or list(range(1, n + 3))
        cnt["target_lists"] += 1
        tset = set(tels)
        # relation between the listed targets
        rel = "single" if len(tels) == 1 else "independent"
        dep_first = False
        for a, b in itertools.combinations(range(len(tels)), 2):
            if tels[b] in truth.closure(tels[a]):
                dep_first = True
                rel = "dependent listed first"
            elif tels[a] in truth.closure(tels[b]) and rel != "dependent listed first":
                rel = "precedent listed first"
            elif rel == "independent" and truth.closure(tels[a]) & truth.closure(tels[b]):
                rel = "shared precedents"
        has_input_target = any(truth.info[e]["input"] for e in tels)
        has_uncached = any(not truth.is_cached(e) for e in clo)
        reads_input = any(c not in truth.calls for e in clo for c in truth.calls[e])

        for step in steps:
            # ---------------------------------------------------------------- before
            for e in pels:
                i = truth.info[e]
                w.live_value(i["steps"], i["name"], i["args"])
            before = held_state(w.m)
            if set(before) & clo:
                raise Inconclusive("an element of the closure is held before the run")
            nodes = []
            for ti, e in enumerate(tels):
                c_, args = live_cells(truth.info[e]), truth.info[e]["args"]
                if (ri + ti + step) % 2 and args:
                    # the same element spelled with keywords
                    nodes.append(c_.node(**dict(zip(c_.parameters, args))))
                    cnt["nodes_by_keyword"] += 1
                else:
                    nodes.append(c_.node(*args))
            ctx = {"run": ri, "targets": [jel(e) for e in tels], "step_size": step, "closure": n,
                   "preheld": [jel(e) for e in pels]}
            cnt["runs"] += 1
            # ---------------------------------------------------------------- generate
            w.probe.reset()
            try:
                actions = w.m.generate_actions(nodes, step_size=step)
            except Exception as e:      # noqa
                V("generate-raised", "generate_actions raised %s" % type(e).__name__, msg=str(e)[:200], **ctx)
                break
            cnt["enter_events_generate"] += len(w.probe.entered())
            after_gen = held_state(w.m)
            cnt["generate_residue_checks"] += 1
            residue = set(after_gen) - set(before)
            if residue:
                V("generate-residue", "generate_actions left calculated values behind",
                  left=[jel(e) for e in sorted(residue)[:4]], **ctx)
                break
            # ---------------------------------------------------------------- the plan
            flat, blocks, pasted_at, cleared_at = [], 0, {}, {}
            listed_clear = set()
            bad_shape = None
            for a in actions:
                try:
                    kind, ns = a
                except Exception:     # noqa
                    bad_shape = repr(a)[:100]
                    break
                els = [node_element(x) for x in ns]
                cnt["space_nodes"] += sum(1 for x in els if x is None)
                els = [x for x in els if x is not None]
                if kind == "calc":
                    blocks += 1
                    cnt["calc_steps"] += 1
                    flat.extend(els)
                elif kind == "paste":
                    cnt["paste_nodes"] += len(els)
                    for x in els:
                        pasted_at.setdefault(x, blocks)
                elif kind == "clear":
                    cnt["clear_nodes"] += len(els)
                    for x in els:
                        listed_clear.add(x)
                        cleared_at[x] = blocks
                else:
                    bad_shape = "unknown action %r" % (kind,)
            if bad_shape:
                raise Inconclusive("action list has an unexpected form: %s" % bad_shape)
            occ = collections.Counter(flat)
            pos = {}
            for p, x in enumerate(flat):
                pos.setdefault(x, p)
            stop = False
            for e in sorted(must):
                cnt["calc_membership_checks"] += 1
                if occ[e] == 0:
                    V("calc-missing", "element of the targets' closure is in no calc step", element=jel(e), **ctx)
                    stop = True
                elif occ[e] > 1:
                    V("calc-duplicate", "element of the targets' closure is in more than one calc step",
                      element=jel(e), times=occ[e], **ctx)
                    stop = True
            cnt["extra_calc_nodes"] += sum(1 for x in occ if x not in must)
            if not stop:
                for e in sorted(must):
                    for d in truth.deps(e):
                        if d in must:
                            cnt["order_checks"] += 1
                            if pos[d] > pos[e]:
                                V("calc-order", "element is listed in the calc steps before one it depends on",
                                  element=jel(e), depends_on=jel(d), **ctx)
                                stop = True
            if stop:
                break
            carry = max([cleared_at[x] - pasted_at[x] for x in pasted_at if x in cleared_at] or [0])
            # ---------------------------------------------------------------- execute
            w.probe.reset()
            try:
                w.m.execute_actions(actions)
            except Exception as e:      # noqa
                V("execute-raised", "execute_actions raised %s" % type(e).__name__, msg=str(e)[:200], **ctx)
                break
            ent = collections.Counter(w.probe.entered())
            cnt["enter_events_execute"] += sum(ent.values())
            for e, k in sorted(ent.items()):
                ic = truth.is_cached(e)
                if ic is None:
                    cnt["twice_unclassified"] += 1       # cells unknown to the reference: nothing asserted
                elif ic:
                    cnt["twice_checks"] += 1
                    if k > 1:
                        V("twice", "element computed more than once during execute_actions",
                          element=jel(e), times=k, cleared_in_block=cleared_at.get(e), pasted_in_block=pasted_at.get(e),
                          blocks=blocks, **ctx)
            after = held_state(w.m)
            for e in tels:
                cnt["target_value_checks"] += 1
                i = truth.info[e]
                if e not in after:
                    V("target-missing", "target holds no value after the run", target=jel(e),
                      position_in_list=tels.index(e), relation=rel, **ctx)
                    continue
                got = w._strip(mxcanon(after[e]))
                if _norm(got) != _norm(direct[e]):
                    V("target-value", "target value differs from direct evaluation", target=jel(e), got=got,
                      direct=direct[e], **ctx)
                try:
                    if live_cells(i).is_input(*i["args"]):
                        cnt["targets_pasted_as_input"] += 1
                except Exception:      # noqa
                    pass
            for e in sorted(set(after) | set(before)):
                cnt["leftover_checks"] += 1
                if e in after and e not in before and e not in tset:
                    how = ("listed in a clear step, computed again afterwards" if e in listed_clear
                           else "never listed in a clear step")
                    V("leftover", "non-target value left behind after the run (%s)" % how, element=jel(e),
                      blocks=blocks, **ctx)
            cnt["sanity_checks"] += 1
            s = sanity(w.m)
            if s:
                V("sanity", "library self-check failed after a memory-optimised run", probs=s[:3], **ctx)
            if vio:
                break
            # ---------------------------------------------------------------- coverage of this run
            if blocks > 1:
                cnt["runs_multi_block"] += 1
            if carry >= 2:
                cnt["runs_carry_2plus_blocks"] += 1
            if dep_first:
                cnt["runs_dependent_listed_first"] += 1
            if rel != "single" and rel != "independent":
                cnt["runs_targets_dependent"] += 1
            if pels:
                cnt["runs_preheld"] += 1
            if reads_input:
                cnt["runs_with_inputs"] += 1
            if has_input_target:
                cnt["runs_target_is_input"] += 1
            if has_uncached:
                cnt["runs_with_uncached"] += 1
            if step > n:
                cnt["runs_step_beyond"] += 1
            if case.get("item"):
                cnt["runs_in_itemspace_models"] += 1
            sp = ("step=1" if step == 1 else "step=n" if step == n else "step=n+1" if step == n + 1 else
                  "step=n+2" if step == n + 2 else "1<step<=n/2" if step * 2 <= n else "n/2<step<n")
            matrix["step position x blocks"]["%s | %s" % (sp, blocks if blocks < 6 else "6+")] += 1
            matrix["family x targets"]["%s | %d" % (fam, len(tels))] += 1
            matrix["target relation"][rel + (" +input target" if has_input_target else "")] += 1
            matrix["closure size"][str(n) if n < 10 else "10-19" if n < 20 else "20+"] += 1
            if n >= 2:
                nontrivial += 1
                shapes.append("%x|%s|%d|%s" % (case.get("seed", 0) & 0xFFFFFFFF,
                                               ";".join("%s.%s%r" % (e[0], e[1], e[2]) for e in tels), step,
                                               ";".join("%s.%s%r" % (e[0], e[1], e[2]) for e in pels)))
            if sample is None and n >= 3 and 1 < step < n:
                sample = {"kind": fam, "ops": ops[:14], "n_ops": len(ops), "targets": [jel(e) for e in tels],
                          "step_size": step, "closure_size": n, "preheld": [jel(e) for e in pels],
                          "actions": [[a[0], [repr(x) for x in a[1]]] for a in actions][:12],
                          "executed": [jel(e) for e in w.probe.entered()][:20],
                          "held_after": {"%s.%s%r" % e: repr(v) for e, v in after.items()},
                          "direct": {"%s.%s%r" % e: direct[e] for e in tels}}
            # ---------------------------------------------------------------- restore for the next run
            ok = True
            try:
                for e in tels:
                    if e not in base:
                        i = truth.info[e]
                        live_cells(i).clear_at(*i["args"])
                for s_ in list(walk_spaces(w.m)):
                    if s_.formula is not None:
                        s_.clear_items()
                for s_ in w.m.spaces.values():
                    s_.clear_cells()
                ok = held_state(w.m) == base
            except Exception:      # noqa
                ok = False
            if not ok:
                cnt["rebuilds"] += 1
                reset_session()
                w, _ = build_world(ops, "M", True)
                if held_state(w.m) != base:
                    raise Inconclusive("rebuilt model differs from the first build")
        if vio:
            break
        if not run.get("steps"):
            cnt["target_lists_all_steps"] += 1
            cnt["step_sizes_enumerated"] += len(steps)
    if cnt["runs"]:
        cnt["cases_with_runs"] = 1
    return {"violations": vio, "counters": dict(cnt), "nontrivial": nontrivial > 0, "shapes": shapes,
            "matrix": {k: dict(v) for k, v in matrix.items()}, "case": case, "sample": sample}


def mxcanon(v):
    from ..mxutil import canon
    return canon(v)


# =========================================================================== shrinking
def shrink(case, violations, deadline):
    """1. keep only the violating (target list, step size); 2. neutralise model ops"""
    import time
    from ..shrink import shrink_ops, _sigs
    case = expand(case)
    want = _sigs(violations)
    best = dict(case)

    def still(c):
        reset_session()
        try:
            r = run_case(c)
        except Exception:     # noqa
            return False
        return bool(want & _sigs(r.get("violations") or []))

    d = violations[0].get("detail", {})
    if "run" in d and d["run"] < len(case["runs"]):
        run = dict(case["runs"][d["run"]])
        for cand in (dict(run, steps=[d.get("step_size")]), run):
            if cand.get("steps") == [None]:
                continue
            c = dict(best, runs=[cand])
            if still(c):
                best = c
                break
    # fewer targets / no pre-held values
    if len(best["runs"]) == 1 and time.time() < deadline:
        run = best["runs"][0]
        if run.get("pre"):
            c = dict(best, runs=[dict(run, pre=[])])
            if still(c):
                best = c
                run = best["runs"][0]
        i = 0
        while len(run["targets"]) > 1 and i < len(run["targets"]) and time.time() < deadline:
            t = run["targets"][:i] + run["targets"][i + 1:]
            c = dict(best, runs=[dict(run, targets=t)])
            if still(c):
                best = c
                run = best["runs"][0]
            else:
                i += 1
    out = shrink_ops(best, run_case, violations, deadline)
    return out or best


def finalize(cov, results):
    c = cov["counters"]
    # models and target lists are sampled, so the run as a whole is not exhaustive; the step-size axis is
    cov["exhaustive"] = False
    cov["exhaustive_subspace"] = {
        "what": "step sizes 1..|closure|+2 for one (model, ordered target list)",
        "target_lists_planned": c.get("target_lists", 0),
        "target_lists_with_every_step_size_run": c.get("target_lists_all_steps", 0),
        "step_sizes_enumerated": c.get("step_sizes_enumerated", 0),
        "complete": c.get("target_lists", 0) == c.get("target_lists_all_steps", 0) and c.get("target_lists", 0) > 0,
    }
    if c.get("ref_compared"):
        cov["secondary_oracle_agreement"] = round(c.get("ref_agreed", 0) / c["ref_compared"], 6)
