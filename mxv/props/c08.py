"""C08 - reported dependencies are exactly the calls made; graph and cache agree (engine: mxv/dagcheck.py)."""
import random

from .. import env
from .. import dagcheck

ID = "C08"
LEVEL = "exploration"
RULE = ("seeded random dependency DAGs over two spaces (3-8 cells, cached and uncached, recursion, references by name "
        "and by attribute path) x histories of 12 operations (evaluations incl. cache hits from new callers, value "
        "edits, reference changes, evaluations made to fail at the n-th formula entry/exit); after every operation, "
        "for every element holding a value: preds == ground-truth callees (through uncached cells), succs == inverse, "
        "precedents >= references read, graph nodes == held elements, acyclic. Non-trivial = at least one preds "
        "comparison on a computed element; distinct = distinct (DAG size, op-kind sequence)")
ASSUMPTIONS = ["ground truth from the generator's call structure, cross-checked against the probe's ENTER nesting",
               "precedents() is compared as a superset for references"]
MIN_COUNTERS = {"quick": {"preds_checks": 20000, "succs_checks": 20000, "precedents_checks": 10000, "graph_checks": 5000,
                          "failed_evals": 150},
                "thorough": {"preds_checks": 600000, "succs_checks": 600000, "precedents_checks": 300000,
                             "graph_checks": 150000, "failed_evals": 5000}}


def gen_cases(tier, seed):
    n = 800 if tier == "quick" else 25000
    for i in range(n):
        yield {"id": "h%d" % i, "seed": env.derive_seed(seed, ID, i)}


def expand(case):
    if "ops" in case:
        return case
    rnd = random.Random(case["seed"])
    spec = dagcheck.gen_spec(rnd)
    c = dict(case)
    c["spec"] = spec
    c["ops"] = dagcheck.gen_ops(rnd, spec, 12, with_failures=True)
    return c


def run_case(case):
    return dagcheck.run(expand(case), {"C08"})


def shrink(case, violations, deadline):
    from ..shrink import shrink_ops
    return shrink_ops(expand(case), run_case, violations, deadline)
