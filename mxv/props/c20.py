"""C20 - formula capture is faithful and idempotent; rename and doc edits are inert.

Workload: a grammar of function-text layouts (mxv/c20_grammar.py): def texts (signature shapes,
return annotations, docstring shapes, ~35 body shapes, comment positions, decorators, one-line /
multi-line, indentation unit, head/tail of the text, spacing) and lambda expressions (signature,
body shape, embedding statement).  Every layout is turned into a cells through a *form*: source
text (own name / other name / no name / indented by spaces or tabs / assigned to an existing cells),
function object imported from a scratch module (module level, inside if / class / function bodies,
tab indented, other name, through @mx.defcells), lambda text, lambda object.  Then a history of
re-creation from formula.source, formula re-assignment, renames and doc replacements is applied.

Oracle: the language itself - exec/eval of the text the generator wrote (function-object forms: the
imported object), exec/eval of formula.source alone, tokenize/ast of the source before and after an
edit.
"""
import ast
import importlib.util
import inspect
import io
import linecache
import os
import random
import re
import shutil
import sys
import tempfile
import tokenize
import types

from .. import env
from ..mxutil import mx, val, canon, sanity, Inconclusive
from .. import c20_grammar as G

ID = "C20"
LEVEL = "exploration"
RULE = ("layouts = assignments of the grammar's dimensions (def: sig, ret, doc, body, comment, deco, line, unit, "
        "tail, head, spacing; lambda: lsig, lbody, embed, tail); all layouts deviating from the default layout in "
        "0, 1 or 2 dimensions are enumerated (single features: every form; pairs: one text form and one object form "
        "in the quick tier, every form in the thorough tier) plus seeded random layouts deviating in 2-6 dimensions "
        "with random forms and random edit histories (re-create from formula.source, re-assign formula.source, rename, "
        "doc=, set_doc); directed: witnesses Q and R, docs containing line-end characters; a case is non-trivial when "
        "the cells was created and at least one value was compared with the plain function; distinct = distinct "
        "(layout, form, op-kind sequence); a violating case is reduced (history, layout, form, last edit) inside the "
        "worker so that its signature names the features the mechanism needs")
ASSUMPTIONS = [
    "meaning of a text = exec/eval by CPython 3.12 of the text as generated at column 0 (indented forms add one "
    "prefix to every non-blank line); helper names deco/deco2/ns.deco are identity decorators",
    "function-object forms: the imported object is the oracle for values and signature; its documentation is "
    "compared after inspect.cleandoc on both sides (the text of an indented definition carries the indentation of "
    "its context in continuation lines of the docstring)",
    "globals bound in the space: reference K, cells sib, child space Ch with reference r; plain functions get "
    "equal plain objects",
    "argument domain: x in {0, 2, 1}, second parameter omitted / 5 / keyword 3",
    "set_doc(insert_indents=True) is required to keep every line of the doc up to leading white space",
    "two lambdas starting on one physical line are a documented ValueError for lambda objects and are not generated "
    "for object forms",
]
MIN_COUNTERS = {
    "quick": {"created": 6000, "value_checks": 150000, "source_exec_checks": 30000, "idempotence_checks": 12000,
              "rename_checks": 12000, "doc_checks": 12000, "token_checks": 10000},
    "thorough": {"created": 70000, "value_checks": 2000000, "source_exec_checks": 400000,
                 "idempotence_checks": 150000, "rename_checks": 150000, "doc_checks": 150000,
                 "token_checks": 120000},
}
SHARD_TIMEOUT = {"quick": 900, "thorough": 5400}
MAX_CONFIRM = 16

# --------------------------------------------------------------------------- forms

TEXT_FORMS = ["T0", "TN", "TA", "TI4", "TItab", "TI8", "TI1", "SF"]
FUNC_FORMS = ["F0", "FN", "FIF", "FCL", "FTAB", "FNEST", "FIF2", "DC", "DCA"]
LAM_TEXT_FORMS = ["LT", "LTI4", "LTItab", "LSF"]
LAM_OBJ_FORMS = ["LO", "LOIF", "LOCL", "LOTAB"]
PREFIX = {"TI4": "    ", "TItab": "\t", "TI8": "        ", "TI1": " ", "LTI4": "    ", "LTItab": "\t"}
CONTEXT = {   # opening lines, prefix, accessor template
    "F0": ("", "", "NAME"), "FN": ("", "", "NAME"),
    "FIF": ("if K:\n", "    ", "NAME"),
    "FTAB": ("if K:\n", "\t", "NAME"),
    "FCL": ("class H:\n", "    ", "H.__dict__['NAME']"),
    "FNEST": ("def mk__():\n", "    ", "mk__()"),
    "FIF2": ("class H:\n  if K:\n", "      ", "H.__dict__['NAME']"),
    "DC": ("", "", "NAME"), "DCA": ("", "", "NAME"),
    "LO": ("", "", None), "LOIF": ("if K:\n", "    ", None), "LOTAB": ("if K:\n", "\t", None),
    "LOCL": ("class H:\n", "    ", None),
}
FORM_CLASS = {"T0": "text", "TN": "text", "TA": "text", "SF": "text", "TI4": "text-indented", "TItab": "text-indented",
              "TI8": "text-indented", "TI1": "text-indented", "F0": "func", "FN": "func", "FIF": "func-indented",
              "FCL": "func-indented", "FTAB": "func-indented", "FNEST": "func-indented", "FIF2": "func-indented",
              "DC": "defcells", "DCA": "defcells", "LT": "lambda-text", "LTI4": "lambda-text-indented",
              "LTItab": "lambda-text-indented", "LSF": "lambda-text", "LO": "lambda-object",
              "LOIF": "lambda-object-indented", "LOCL": "lambda-object-indented", "LOTAB": "lambda-object-indented"}

PRELUDE = (
    "def deco(f):\n    return f\n"
    "def deco2(*a, **k):\n    return deco\n"
    "class ns:\n    deco = staticmethod(deco)\n    keep = staticmethod(lambda f: f)\n"
    "def ident(*a, **k):\n    return a[0] if a else k['f']\n"
    "def ident2(f, *a):\n    return f\n"
    "dd2 = {}\n"
)
SPACE_NAMES = "K = 1000\ndef sib(z):\n    return z * 7 + 1\nclass Ch:\n    r = 5\n"

NEW_DOCS = ["new doc", 'has "quotes"', 'ends with "', "multi\nline", "back\\slash", "", "'''", '"""', "tab\tand é →",
            "ends with backslash\\", "  leading spaces", "trailing newline\n", "\nleading newline", "'", 'x"""y"',
            "\\n literal", "# not a comment", "{braces} %s", "def foo(x): pass", "lambda: 0",
            "first\n\n    indented\n", '\\"', '""', "\\", "a\\\nb", "@deco"]
RARE_DOCS = ["crlf\r\nline", "cr\ronly", "form\x0cfeed", "nbsp\xa0and \u2028 separator"]
NAMES = ["ren", "bar", "foo", "inner", "C", "f", "deco", "a1", "lam_2", "twice"]


class _MxStub:
    """stands for modelx in the twin module that yields the plain function of the defcells forms"""
    @staticmethod
    def defcells(*a, **k):
        if a and isinstance(a[0], types.FunctionType):
            return a[0]
        return lambda f: f


def form_feasible(kind, form, r):
    if kind == "def":
        if r["raw"] and form in PREFIX:
            return False        # a column-0 line in a text that is to be indented is not a function text
        return True
    if form in LAM_TEXT_FORMS:
        return r["text_ok"]
    return r["accessor"] is not None and not r["same_line_lambdas"]


def render(case):
    if case["kind"] == "def":
        return G.render_def(case["layout"])
    return G.render_lam(case["layout"])


# --------------------------------------------------------------------------- case generation

def _default_ops(rnd):
    d = rnd.sample(NEW_DOCS, 3)
    n = rnd.sample([x for x in NAMES if x != "foo"], 2)
    return [{"op": "recreate"}, {"op": "rename", "name": n[0]}, {"op": "doc", "doc": d[0]}, {"op": "recreate"},
            {"op": "rename", "name": "foo"}, {"op": "doc", "doc": d[1]},
            {"op": "set_doc", "doc": d[2], "indents": True}, {"op": "reassign"}, {"op": "rename", "name": n[1]}]


def _random_ops(rnd):
    ops = []
    for _ in range(rnd.randint(4, 12)):
        k = rnd.choice(["recreate", "rename", "rename", "doc", "doc", "doc", "set_doc", "reassign"])
        if k == "rename":
            ops.append({"op": "rename", "name": rnd.choice(NAMES)})
        elif k == "doc":
            ops.append({"op": "doc", "doc": rnd.choice(RARE_DOCS if rnd.random() < 0.03 else NEW_DOCS)})
        elif k == "set_doc":
            ops.append({"op": "set_doc", "doc": rnd.choice(NEW_DOCS), "indents": rnd.random() < 0.7})
        else:
            ops.append({"op": k})
    return ops


def gen_cases(tier, seed):
    # neighbouring layouts share features (and cost); spread them over the shards
    cases = list(_gen_cases(tier, seed))
    random.Random(seed).shuffle(cases)
    return cases


def _gen_cases(tier, seed):
    thorough = tier == "thorough"
    for w in ("Q", "R"):
        yield {"id": "w" + w, "witness": w, "ops": []}
    for kind, dims, default, tforms, oforms in (
            ("def", G.DEF_DIMS, G.DEF_DEFAULT, TEXT_FORMS, FUNC_FORMS),
            ("lam", G.LAM_DIMS, G.LAM_DEFAULT, LAM_TEXT_FORMS, LAM_OBJ_FORMS)):
        for i, L in enumerate(G.singles_and_pairs(dims, default)):
            r = G.render_def(L) if kind == "def" else G.render_lam(L)
            if r is None:
                continue
            if len(L) <= 1 or thorough:
                forms = tforms + oforms
            else:
                forms = [tforms[(i + seed) % len(tforms)], oforms[(i // 3 + seed) % len(oforms)]]
            for f in forms:
                if form_feasible(kind, f, r):
                    cid = "%s%d-%s" % (kind[0], i, f)
                    yield {"id": cid, "kind": kind, "layout": L, "form": f, "hist": "default",
                           "seed": env.derive_seed(seed, ID, cid)}
    # documentation strings with characters that Python's tokenizer or str.splitlines treat as line ends
    for j, d in enumerate(RARE_DOCS):
        for kind, L, f in (("def", {}, "T0"), ("def", {"doc": "multi"}, "FIF"), ("def", {"line": "one"}, "TI4"),
                           ("lam", {}, "LT")):
            yield {"id": "x%d-%s" % (j, f), "kind": kind, "layout": L, "form": f,
                   "ops": [{"op": "doc", "doc": d}, {"op": "rename", "name": "ren"}, {"op": "recreate"},
                           {"op": "set_doc", "doc": d, "indents": True}, {"op": "reassign"}]}
    n = 60000 if thorough else 500
    for j in range(n):
        yield {"id": "r%d" % j, "random": True, "seed": env.derive_seed(seed, ID, "r", j)}


def expand(case):
    if "ops" in case:
        return case
    c = dict(case)
    rnd = random.Random(case["seed"])
    if case.get("random"):
        while True:
            kind = "def" if rnd.random() < 0.8 else "lam"
            if kind == "def":
                L = G.random_layout(rnd, G.DEF_DIMS)
                forms = TEXT_FORMS + FUNC_FORMS
            else:
                L = G.random_layout(rnd, G.LAM_DIMS, 2, 4)
                forms = LAM_TEXT_FORMS + LAM_OBJ_FORMS
            r = G.render_def(L) if kind == "def" else G.render_lam(L)
            if r is None:
                continue
            f = rnd.choice(forms)
            if form_feasible(kind, f, r):
                break
        c.update(kind=kind, layout=L, form=f)
        c["ops"] = _random_ops(rnd)
    else:
        c["ops"] = _default_ops(rnd)
    return c


# --------------------------------------------------------------------------- independent text oracles

def _tokens(src):
    return list(tokenize.generate_tokens(io.StringIO(src).readline))


def rename_oracle(src, new):
    """the source with the name after the first `def` keyword replaced - by tokenize, nothing else touched"""
    toks = _tokens(src)
    for i, t in enumerate(toks):
        if t.type == tokenize.NAME and t.string == "def":
            nt = toks[i + 1]
            if nt.type != tokenize.NAME or nt.start[0] != nt.end[0]:
                raise Inconclusive("rename oracle: no name after def")
            lines = src.split("\n")
            ln = lines[nt.start[0] - 1]
            lines[nt.start[0] - 1] = ln[:nt.start[1]] + new + ln[nt.end[1]:]
            return "\n".join(lines)
    raise Inconclusive("rename oracle: no def token")


def tokens_without_doc(src):
    """(type, string) of every token except NL and the tokens of the docstring statement of the outermost def"""
    tree = ast.parse(src)
    fn = tree.body[0]
    if not isinstance(fn, ast.FunctionDef):
        raise Inconclusive("doc oracle: source is not a def")
    has_doc = ast.get_docstring(fn, clean=False) is not None
    toks = _tokens(src)
    out = []
    depth = 0
    i = 0
    n = len(toks)
    seen_def = False
    # header: up to the first ':' at depth 0 after `def`
    while i < n:
        t = toks[i]
        if t.type == tokenize.NAME and t.string == "def":
            seen_def = True
        if t.type == tokenize.OP:
            if t.string in "([{":
                depth += 1
            elif t.string in ")]}":
                depth -= 1
        if t.type != tokenize.NL:
            out.append((t.type, t.string))
        i += 1
        if seen_def and t.type == tokenize.OP and t.string == ":" and depth == 0:
            break
    # up to the first token of the first statement
    while i < n and toks[i].type in (tokenize.COMMENT, tokenize.NEWLINE, tokenize.NL, tokenize.INDENT):
        if toks[i].type != tokenize.NL:
            out.append((toks[i].type, toks[i].string))
        i += 1
    if has_doc:
        depth = 0
        while i < n:
            t = toks[i]
            if t.type == tokenize.OP and t.string in "([{":
                depth += 1
            elif t.type == tokenize.OP and t.string in ")]}":
                depth -= 1
            i += 1
            if depth == 0 and (t.type == tokenize.NEWLINE or (t.type == tokenize.OP and t.string == ";")):
                break
            if t.type == tokenize.COMMENT:
                out.append((t.type, t.string))
    while i < n:
        if toks[i].type != tokenize.NL:
            out.append((toks[i].type, toks[i].string))
        i += 1
    return out


# --------------------------------------------------------------------------- the world of one case

def base_globals(decos=False):
    g = {}
    exec(SPACE_NAMES, g)
    if decos:
        exec(PRELUDE, g)
    return g


class Ctx:
    def __init__(self, case):
        self.case = case
        self.vio = []
        self.cnt = {"created": 0, "value_checks": 0, "param_checks": 0, "source_exec_checks": 0,
                    "idempotence_checks": 0, "rename_checks": 0, "doc_checks": 0, "token_checks": 0,
                    "rename_roundtrips": 0, "ops": 0, "observations": 0, "error_values": 0, "bystander_checks": 0}
        self.matrix = {"form x feature": {}, "op x feature": {}, "op x form": {}}
        self.tmp = None
        self.modn = 0
        self.stage = "create"
        self.suffix = ""
        if case.get("shrunk") and case.get("layout") is not None:
            parts = [", ".join(G.features(case["layout"])) or "default layout"]
            if case.get("form") not in ("T0", "LT"):
                parts.append("form=%s" % case.get("form"))
            ops = [o for o in case.get("ops", []) if o.get("op") != "nop"]
            if len(ops) > 1:
                parts.append("ops=" + ">".join(o["op"] for o in ops))
            if ops and ops[-1]["op"] in ("doc", "set_doc") and ops[-1]["doc"] != "new doc":
                parts.append("doc=%r" % ops[-1]["doc"])
            if ops and ops[-1]["op"] == "rename" and ops[-1]["name"] != "ren":
                parts.append("name=%s" % ops[-1]["name"])
            self.suffix = " {%s}" % "; ".join(parts)

    def V(self, kind, what, **detail):
        sig = "%s: %s%s" % (self.stage, what, self.suffix)
        detail.setdefault("step", getattr(self, "step", None))
        self.vio.append({"kind": kind, "signature": sig, "what": what, "stage": self.stage, "detail": detail})

    def load_module(self, text):
        if self.tmp is None:
            self.tmp = tempfile.mkdtemp(prefix="mxv_c20_")
        self.modn += 1
        name = "mxv_c20_mod_%d_%d" % (os.getpid(), self.modn)
        path = os.path.join(self.tmp, name + ".py")
        with open(path, "w", encoding="utf-8") as f:
            f.write(text)
        spec = importlib.util.spec_from_file_location(name, path)
        mod = importlib.util.module_from_spec(spec)
        sys.modules[name] = mod
        self.mods = getattr(self, "mods", []) + [name]
        return spec, mod

    def cleanup(self):
        for n in getattr(self, "mods", []):
            sys.modules.pop(n, None)
        if self.tmp:
            shutil.rmtree(self.tmp, ignore_errors=True)
            linecache.checkcache()


def build_model():
    m = mx.new_model("M")
    spaces = []
    for n in ("B", "A"):
        s = m.new_space(n)
        s.K = 1000
        s.new_cells("sib", formula="lambda z: z * 7 + 1")
        s.new_space("Ch").r = 5
        spaces.append(s)
    return m, spaces[1], spaces[0]


def plain_val(fn, *a, **k):
    try:
        return fn(*a, **k)
    except Exception as e:      # noqa
        return ("ERR", type(e).__name__)


_FUNCREPR = re.compile(r"<function [\w.<>]+ at 0x[0-9a-fA-F]+>")


def sigstr(s):
    return _FUNCREPR.sub("<function>", str(s))


def arg_sets(params):
    n = len(params)
    if n == 0:
        return [((), {})]
    if n == 1:
        return [((0,), {}), ((2,), {}), ((), {params[0]: 1})]
    return [((0,), {}), ((2,), {}), ((1, 5), {}), ((), {params[0]: 1, params[1]: 3}), ((2,), {params[1]: 3})]


def behaviour(call, params, plain):
    out = []
    for a, k in arg_sets(params):
        v = plain_val(call, *a, **k) if plain else val(call, *a, **k)
        out.append(canon(v) if not (isinstance(v, tuple) and v and v[0] == "ERR") else list(v))
    return out


def observe(cx, c, ref, name, doc, is_lambda, what=""):
    """compare one live cells with the plain function `ref`; doc = ("exact"|"clean"|"lstrip", string or None)"""
    cx.cnt["observations"] += 1
    tag = (what + " ") if what else ""
    try:
        cname = c.name
        if cname != name:
            cx.V("name", tag + "cells has another name than requested", want=name, got=cname)
        rp = tuple(inspect.signature(ref).parameters)
        cx.cnt["param_checks"] += 1
        if tuple(c.parameters) != rp:
            cx.V("parameters", tag + "parameters differ from the plain function", want=list(rp), got=list(c.parameters))
            return False
        if sigstr(c.formula.signature) != sigstr(inspect.signature(ref)):
            cx.V("signature", tag + "defaults or annotations differ from the plain function",
                 want=sigstr(inspect.signature(ref)), got=sigstr(c.formula.signature))
        exp = behaviour(ref, rp, True)
        got = behaviour(c, rp, False)
        cx.cnt["value_checks"] += len(exp)
        cx.cnt["error_values"] += sum(1 for v in exp if isinstance(v, list) and v[:1] == ["ERR"])
        if got != exp:
            cx.V("value", tag + "values differ from the plain function", want=exp, got=got)
        d = c.doc
        mode, want = doc
        if mode == "clean":
            ok = (d is None) == (want is None) and (d is None or inspect.cleandoc(d) == inspect.cleandoc(want))
        elif mode == "lstrip":
            ok = d is not None and [x.lstrip() for x in d.split("\n")] == [x.lstrip() for x in want.split("\n")]
        else:
            ok = d == want
        if not ok:
            cx.V("doc", tag + "doc differs from the expected documentation string", want=want, got=d, mode=mode)
        # ---- formula.source alone defines the same function under the cells' name
        src = c.formula.source
        cx.cnt["source_exec_checks"] += 1
        if not isinstance(src, str):
            cx.V("source", tag + "formula.source is not a string", got=repr(src))
            return False
        g = base_globals()
        try:
            if is_lambda:
                fn = eval(src, g)       # noqa: S307
            else:
                exec(src, g)            # noqa: S102
                fn = g.get(name)
        except Exception as e:      # noqa
            cx.V("source", tag + "formula.source alone is not executable: %s" % type(e).__name__, src=src, msg=str(e)[:200])
            return False
        if not isinstance(fn, types.FunctionType):
            cx.V("source", tag + "formula.source does not define a function of the cells' name", src=src, name=name)
            return False
        if sigstr(inspect.signature(fn)) != sigstr(inspect.signature(ref)):
            cx.V("source", tag + "formula.source defines another signature", src=src,
                 want=sigstr(inspect.signature(ref)), got=sigstr(inspect.signature(fn)))
        elif behaviour(fn, rp, True) != exp:
            cx.V("source", tag + "formula.source defines a function with other values", src=src, want=exp,
                 got=behaviour(fn, rp, True))
        cx.cnt["value_checks"] += len(exp)
        if not is_lambda and fn.__doc__ != d:
            cx.V("source", tag + "docstring in formula.source differs from cells.doc", src=src, doc=d, srcdoc=fn.__doc__)
        return True
    except Inconclusive:
        raise
    except Exception as e:      # noqa   a public attribute of a live cells raised
        cx.V("observe-raised", tag + "reading the cells raised %s" % type(e).__name__, msg=str(e)[:300])
        return False


def bystanders(A, name):
    return {"sib_src": A.sib.formula.source, "sib3": val(A.sib, 3), "K": A.K,
            "cells": sorted(set(A.cells) - {name}), "spaces": sorted(A.spaces),
            "refs": sorted(n for n in A.refs if not n.startswith("_"))}


# --------------------------------------------------------------------------- creation through a form

def create(cx, case, r, A):
    """-> (cells, plain function, expected name, doc expectation) or None after recording a violation"""
    form = case["form"]
    kind = case["kind"]
    text = r["text"]
    name = "foo"
    if kind == "def":
        if form in TEXT_FORMS:
            g = base_globals(decos=True)
            exec(text, g)                               # noqa: S102   generator-made text; its failure is a harness error
            ref = g["foo"]
            t = G.indent_text(text, PREFIX[form], r["raw"]) if form in PREFIX else text
            cx.given = t
            try:
                if form == "TN":
                    name = "bar"
                    c = A.new_cells("bar", formula=t)
                elif form == "TA":
                    c = A.new_cells(formula=t)
                elif form == "SF":
                    c = A.new_cells("foo", formula="lambda x: None")
                    c.formula = t
                else:
                    c = A.new_cells("foo", formula=t)
            except Exception as e:      # noqa
                cx.V("create-raised", "creating the cells raised %s" % type(e).__name__, text=t, msg=str(e)[:300])
                return None
            return c, ref, name, ("exact", ref.__doc__)
        opening, prefix, acc = CONTEXT[form]
        extra = None
        if form == "DC":
            extra = ["@mx.defcells"]
        elif form == "DCA":
            extra = ["@mx.defcells(space=SPACE__, name='bar')"]
            name = "bar"
        if extra:
            r = G.render_def(case["layout"], extra_deco=extra)
            text = r["text"]
        body = G.indent_text(text, prefix, r["raw"]) if prefix else text
        if not body.endswith("\n"):
            body += "\n"
        modtext = PRELUDE + SPACE_NAMES + opening + body
        if form == "FNEST":
            modtext += "    return foo\n"
        cx.given = modtext[len(PRELUDE) + len(SPACE_NAMES):]
        if form in ("DC", "DCA"):
            spec, mod = cx.load_module(modtext)
            mod.mx = _MxStub
            mod.SPACE__ = None
            spec.loader.exec_module(mod)
            ref = mod.foo
            spec, mod = cx.load_module(modtext)
            mod.mx = mx
            mod.SPACE__ = A
            mx.cur_space(A)
            try:
                spec.loader.exec_module(mod)
                c = mod.foo
            except Exception as e:      # noqa
                cx.V("create-raised", "creating the cells raised %s" % type(e).__name__, text=cx.given, msg=str(e)[:300])
                return None
            if not isinstance(c, mx.core.cells.Cells):
                cx.V("create", "defcells did not return a cells", got=repr(c)[:100])
                return None
            return c, ref, name, ("clean", ref.__doc__)
        spec, mod = cx.load_module(modtext)
        spec.loader.exec_module(mod)
        ref = eval(acc.replace("NAME", "foo"), mod.__dict__)      # noqa: S307
        if not isinstance(ref, types.FunctionType):
            raise Inconclusive("module did not yield a function object")
        try:
            if form == "FN":
                name = "bar"
                c = A.new_cells("bar", formula=ref)
            else:
                c = A.new_cells("foo", formula=ref)
        except Exception as e:      # noqa
            cx.V("create-raised", "creating the cells raised %s" % type(e).__name__, text=cx.given, msg=str(e)[:300])
            return None
        return c, ref, name, ("clean", ref.__doc__)

    # ---- lambdas
    if form in LAM_TEXT_FORMS:
        g = base_globals(decos=True)
        ref = eval("(" + r["lam"] + "\n)", g)       # noqa: S307
        t = G.indent_text(text, PREFIX[form], r["raw"]) if form in PREFIX else text
        cx.given = t
        try:
            if form == "LSF":
                c = A.new_cells("foo", formula="def foo(x):\n    return None")
                c.formula = t
            else:
                c = A.new_cells("foo", formula=t)
        except Exception as e:      # noqa
            cx.V("create-raised", "creating the cells raised %s" % type(e).__name__, text=t, msg=str(e)[:300])
            return None
        return c, ref, name, ("exact", None)
    opening, prefix, _ = CONTEXT[form]
    body = G.indent_text(text, prefix, r["raw"]) if prefix else text
    if not body.endswith("\n"):
        body += "\n"
    modtext = PRELUDE + SPACE_NAMES + opening + body
    cx.given = modtext[len(PRELUDE) + len(SPACE_NAMES):]
    spec, mod = cx.load_module(modtext)
    spec.loader.exec_module(mod)
    ns = mod.__dict__
    if form == "LOCL":
        ns = dict(mod.__dict__)
        ns.update(mod.H.__dict__)
        if "foo" in mod.H.__dict__ and isinstance(mod.H.__dict__["foo"], staticmethod):
            raise Inconclusive("unexpected staticmethod")
    ref = eval(r["accessor"], ns)      # noqa: S307
    if not isinstance(ref, types.FunctionType) or ref.__name__ != "<lambda>":
        raise Inconclusive("module did not yield a lambda object")
    try:
        c = A.new_cells("foo", formula=ref)
    except Exception as e:      # noqa
        if r.get("second_on_line") and isinstance(e, ValueError):
            cx.cnt["refused_second_lambda_on_line"] = cx.cnt.get("refused_second_lambda_on_line", 0) + 1
            return None         # refused: fine (taking the neighbour instead would not be)
        cx.V("create-raised", "creating the cells raised %s" % type(e).__name__, text=cx.given, msg=str(e)[:300])
        return None
    return c, ref, name, ("exact", None)


# --------------------------------------------------------------------------- run

def run_witness(case):
    sys.path.insert(0, env.VERIF)
    from findings import witnesses
    fn = getattr(witnesses, case["witness"])
    r = fn()
    vio = []
    if r:
        vio.append({"kind": "witness", "signature": "witness %s: %s" % (case["witness"], fn.__doc__.strip()),
                    "detail": {"observed": r}})
    from ..mxutil import reset_session
    reset_session()
    return {"violations": vio, "counters": {"witness_probes": 1}, "nontrivial": False, "case": case,
            "shape": "witness-" + case["witness"]}


_SHRINKS = [0]


def run_case(case):
    """run; a violating generated case is reduced to its essential features first, so that the reported
    signature names the mechanism (features, form, edit) and not the generated case"""
    if case.get("witness"):
        return run_witness(case)
    r = _run(case)
    if r.get("violations") and not r["case"].get("shrunk") and _SHRINKS[0] < 150:
        _SHRINKS[0] += 1
        c2 = _shrink(r["case"], r["violations"], budget=40)
        from ..mxutil import reset_session
        reset_session()
        r2 = _run(c2)
        if r2.get("violations"):
            r2["counters"] = r["counters"]
            r2["matrix"] = r["matrix"]
            r2["shape"] = r["shape"]
            return r2
    return r


def _run(case):
    case = expand(case)
    cx = Ctx(case)
    r = render(case)
    if r is None or not form_feasible(case["kind"], case["form"], r):
        return {"status": "vacuous", "counters": {"infeasible": 1}, "nontrivial": False, "case": case}
    is_lambda = case["kind"] == "lam"
    feats = G.features(case["layout"]) or ["default"]
    form = case["form"]
    for f in feats:
        cx.matrix["form x feature"]["%s|%s" % (form, f)] = 1
    sample = None
    created = False
    try:
        m, A, B = build_model()
        made = create(cx, case, r, A)
        if made is not None:
            c, ref, name, doc = made
            created = True
            cx.cnt["created"] += 1
            by0 = bystanders(A, name)
            ok = observe(cx, c, ref, name, doc, is_lambda)
            sample = {"layout": case["layout"], "form": form, "given": cx.given[:600],
                      "source": c.formula.source, "ops": [o["op"] for o in case["ops"]]}
            if ok and not cx.vio:
                run_ops(cx, case, c, ref, name, is_lambda, A, B, by0)
            s = sanity(m)
            if s:
                cx.stage = "end"
                cx.V("sanity", "library self-check failed", probs=s[:3])
    finally:
        cx.cleanup()
    kinds = ",".join(o["op"] for o in case["ops"])
    res = {"violations": cx.vio, "counters": cx.cnt, "matrix": cx.matrix,
           "nontrivial": created and cx.cnt["value_checks"] > 0,
           "shape": "%s|%s|%s|%s" % (case["kind"], ";".join(feats), form, kinds), "case": case}
    if sample is not None and (case["id"].startswith("r") or len(case["layout"]) == 2):
        res["sample"] = sample
    if cx.vio:
        cx.vio[0]["detail"].setdefault("given", getattr(cx, "given", None))
        cx.vio[0]["detail"]["layout"] = case["layout"]
        cx.vio[0]["detail"]["form"] = form
    return res


def run_ops(cx, case, c, ref, name, is_lambda, A, B, by0):
    feats = G.features(case["layout"]) or ["default"]
    cur_src = c.formula.source
    cur_doc = c.doc
    orig = {name: cur_src}       # name -> source, valid while no doc edit happened
    flags0 = (c.is_cached, c.allow_none)
    for step, op in enumerate(case["ops"]):
        o = op["op"]
        if o == "nop":
            continue
        cx.cnt["ops"] += 1
        cx.stage = o
        cx.step = step
        for f in feats:
            k = "%s|%s" % (o, f)
            cx.matrix["op x feature"][k] = cx.matrix["op x feature"].get(k, 0) + 1
        k = "%s|%s" % (o, case["form"])
        cx.matrix["op x form"][k] = cx.matrix["op x form"].get(k, 0) + 1
        if o == "recreate":
            cx.cnt["idempotence_checks"] += 1
            try:
                c2 = B.new_cells(name, formula=cur_src)
            except Exception as e:      # noqa
                cx.V("recreate-raised", "new_cells from formula.source raised %s" % type(e).__name__, src=cur_src,
                     msg=str(e)[:300], step=step)
                return
            if c2.formula.source != cur_src:
                cx.V("idempotence", "new_cells from formula.source gives another source", src=cur_src,
                     again=c2.formula.source, step=step)
            observe(cx, c2, ref, name, ("exact", None if is_lambda else cur_doc), is_lambda, "re-created cells:")
            delattr(B, name)
        elif o == "reassign":
            cx.cnt["idempotence_checks"] += 1
            try:
                c.formula = cur_src
            except Exception as e:      # noqa
                cx.V("reassign-raised", "assigning formula.source as formula raised %s" % type(e).__name__,
                     src=cur_src, msg=str(e)[:300], step=step)
                return
            if c.formula.source != cur_src:
                cx.V("idempotence", "assigning formula.source as formula gives another source", src=cur_src,
                     again=c.formula.source, step=step)
            keep = cur_doc if not is_lambda else c.doc
            observe(cx, c, ref, name, ("exact", keep), is_lambda)
            cur_doc = keep
        elif o == "rename":
            new = op["name"]
            if new == name:
                continue
            cx.cnt["rename_checks"] += 1
            want = cur_src if is_lambda else rename_oracle(cur_src, new)
            try:
                c.rename(new)
            except Exception as e:      # noqa
                cx.V("rename-raised", "rename raised %s" % type(e).__name__, src=cur_src, new=new, msg=str(e)[:300],
                     step=step)
                return
            got = c.formula.source
            if got != want:
                cx.V("rename-source", "rename changed the source in more than the name", before=cur_src, after=got,
                     expected=want, new=new, step=step)
            if new in orig:
                cx.cnt["rename_roundtrips"] += 1
                if got != orig[new]:
                    cx.V("rename-roundtrip", "renaming back does not restore the source", first=orig[new], now=got,
                         step=step)
            else:
                orig[new] = got
            if new not in A.cells or A.cells[new] is not c or name in A.cells:
                cx.V("rename-space", "space does not list the cells under exactly the new name", cells=sorted(A.cells))
            name = new
            observe(cx, c, ref, name, ("exact", cur_doc), is_lambda)
            cur_src = got
        elif o in ("doc", "set_doc"):
            d = op["doc"]
            cx.cnt["doc_checks"] += 1
            try:
                if o == "doc":
                    c.doc = d
                else:
                    c.set_doc(d, insert_indents=op["indents"])
            except Exception as e:      # noqa
                cx.V("doc-raised", "replacing the doc raised %s" % type(e).__name__, src=cur_src, doc=d,
                     msg=str(e)[:300], step=step)
                return
            got = c.formula.source
            if is_lambda:
                if got != cur_src:
                    cx.V("doc-source", "replacing the doc of a lambda cells changed its source", before=cur_src, after=got)
            else:
                cx.cnt["token_checks"] += 1
                a = tokens_without_doc(cur_src)
                try:
                    b = tokens_without_doc(got)
                except (SyntaxError, tokenize.TokenError, IndentationError, Inconclusive) as e:
                    a, b = None, None
                    cx.V("doc-source", "source after replacing the doc is not a function definition (%s)"
                         % type(e).__name__, before=cur_src, after=got, doc=d)
                if a != b:
                    diff = next((i for i, (x, y) in enumerate(zip(a, b)) if x != y), min(len(a), len(b)))
                    cx.V("doc-source", "replacing the doc changed the source outside the docstring", before=cur_src,
                         after=got, doc=d, first_difference=[a[diff:diff + 3], b[diff:diff + 3]], step=step)
            mode = "lstrip" if (o == "set_doc" and op["indents"]) else "exact"
            observe(cx, c, ref, name, (mode, d), is_lambda)
            cur_src = got
            cur_doc = c.doc
            orig = {name: cur_src}
        if (c.is_cached, c.allow_none) != flags0:
            cx.V("flags", "edit changed is_cached / allow_none", before=list(flags0), after=[c.is_cached, c.allow_none])
        cx.cnt["bystander_checks"] += 1
        by = bystanders(A, name)
        if by != by0:
            cx.V("bystander", "edit changed other members of the space", before=by0, after=by)
        if cx.vio:
            return


# --------------------------------------------------------------------------- shrink / finalize

def shrink(case, violations, deadline):
    """runner hook (replay): only cases that were not reduced inside the worker"""
    if case.get("witness") or case.get("shrunk"):
        return None
    return _shrink(expand(case), violations, budget=60)


def _shrink(case, violations, budget):
    from ..mxutil import reset_session
    want = {v.get("what") for v in violations}
    best = dict(case)
    best.pop("shrunk", None)
    best.pop("random", None)
    left = [budget]

    def still(c):
        if left[0] <= 0:
            return False
        left[0] -= 1
        reset_session()
        try:
            r = _run(c)
        except Exception:     # noqa
            return False
        return bool(want & {v.get("what") for v in (r.get("violations") or [])})

    # 1. history: the prefix up to the failing edit (the run stops at the first violating step), then
    #    that edit alone, else drop single earlier ops
    ops = best["ops"]
    steps = [v["detail"].get("step") for v in violations if isinstance(v.get("detail"), dict)]
    stages = {v.get("stage") for v in violations}
    if stages <= {"create"}:
        best = dict(best, ops=[])
    else:
        known = [x for x in steps if isinstance(x, int)]
        n = (max(known) + 1) if known else None
        if n is not None and still(dict(best, ops=ops[:n])):
            best = dict(best, ops=ops[:n])
        else:
            for n in range(len(ops) + 1):
                c = dict(best, ops=ops[:n])
                if n == len(ops) or still(c):
                    best = c
                    break
    if len(best["ops"]) > 1:
        c = dict(best, ops=best["ops"][-1:])
        if still(c):
            best = c
    i = len(best["ops"]) - 2
    while i >= 0:
        c = dict(best, ops=best["ops"][:i] + best["ops"][i + 1:])
        if still(c):
            best = c
        i -= 1
    # 2. layout: drop deviations from the default layout
    for d in sorted(best["layout"]):
        L = dict(best["layout"])
        L.pop(d)
        c = dict(best, layout=L)
        if still(c):
            best = c
    # 3. form: the plainest, else the plainest of its family
    plain = "T0" if best["kind"] == "def" else "LT"
    fam = {"text": "T0", "text-indented": "TI4", "func": "F0", "func-indented": "FIF", "defcells": "DC",
           "lambda-text": "LT", "lambda-text-indented": "LTI4", "lambda-object": "LO",
           "lambda-object-indented": "LOIF"}[FORM_CLASS[best["form"]]]
    for f in (plain, fam):
        if f != best["form"]:
            c = dict(best, form=f)
            if still(c):
                best = c
                break
    # 4. the last edit: plain doc assignment, plain doc string, plain name
    if best["ops"]:
        last = best["ops"][-1]
        cands = []
        if last["op"] == "set_doc":
            cands.append({"op": "doc", "doc": last["doc"]})
        if last["op"] in ("doc", "set_doc") and last["doc"] != "new doc":
            cands.append(dict(last, doc="new doc"))
            cands.append({"op": "doc", "doc": "new doc"})
        if last["op"] == "rename" and last["name"] != "ren":
            cands.append({"op": "rename", "name": "ren"})
        for cand in cands:
            c = dict(best, ops=best["ops"][:-1] + [cand])
            if still(c):
                best = c
                last = cand
    best["shrunk"] = True
    return best


def finalize(cov, results):
    def feasible_layouts(kind, dims, default, forms):
        out = set()
        cells = set()
        for i, L in enumerate(G.singles_and_pairs(dims, default)):
            r = G.render_def(L) if kind == "def" else G.render_lam(L)
            if r is None:
                continue
            fs = [f for f in forms if form_feasible(kind, f, r)]
            if fs:
                out.add("%s%d" % (kind[0], i))
            for f in fs:
                for feat in (G.features(L) or ["default"]):
                    cells.add("%s|%s" % (f, feat))
        return out, cells

    fd, cd = feasible_layouts("def", G.DEF_DIMS, G.DEF_DEFAULT, TEXT_FORMS + FUNC_FORMS)
    fl, cl = feasible_layouts("lam", G.LAM_DIMS, G.LAM_DEFAULT, LAM_TEXT_FORMS + LAM_OBJ_FORMS)
    seen = set()
    bad = 0
    for r in results:
        i = r["id"]
        if i[0] in "dl" and "-" in i:
            if r.get("status") in ("ok", "violation"):
                seen.add(i.split("-")[0])
            else:
                bad += 1
    cov["exhaustive"] = (fd | fl) <= seen and bad == 0
    cov["enumerated_space"] = {"def layouts deviating in <= 2 dimensions (feasible)": len(fd),
                               "lambda layouts deviating in <= 2 dimensions (feasible)": len(fl),
                               "def layouts run": len(seen & fd), "lambda layouts run": len(seen & fl)}
    fm = cov.get("matrices", {}).get("form x feature", {})
    feasible = cd | cl
    cov["form_x_feature_cells_covered"] = "%d of %d feasible (form, feature) cells" % (
        len(set(fm) & feasible), len(feasible))
