"""Worker process: runs cases of one property against the real modelx.

Result dict of a case (JSON-able):
  id          case id
  status      ok | violation | vacuous | error
  nontrivial  bool (default True for ok/violation)
  shape       structural hash string used for distinct_nontrivial (or "shapes": [..])
  counters    {name: int}   monitor assertions evaluated, events observed ...
  matrix      {matrix name: {cell: int}} coverage matrices
  violations  [{kind, signature, detail}]
  case        the fully expanded case (only needed when violations is non-empty)
  sample      optional written-out description of the case for the evidence file
"""
import json
import os
import sys
import time
import traceback

from . import env


def run_one(mod, case):
    from . import mxutil
    try:
        mxutil.reset_session()
    except Exception:     # noqa
        return {"id": case["id"], "status": "error", "error": "reset: " + traceback.format_exc()}
    try:
        r = mod.run_case(case)
    except mxutil.Inconclusive as e:
        r = {"status": "error", "error": "inconclusive: %s" % e}
    except Exception:     # noqa  harness bug or unclassified behaviour: never a verdict
        r = {"status": "error", "error": traceback.format_exc()}
    r.setdefault("id", case["id"])
    if r.get("violations"):
        r["status"] = "violation"
        r.setdefault("case", case)
    r.setdefault("status", "ok")
    return r


def main(argv):
    pid = argv[0]
    env.import_modelx()
    from . import runner
    mod = runner.load_prop(pid)
    if argv[1] == "--replay":
        path, out = argv[2], argv[3]
        with open(path) as f:
            body = json.load(f)
        case = body["case"]
        r = run_one(mod, case)
        if "--shrink" in argv and r.get("violations") and hasattr(mod, "shrink"):
            try:
                # shrink towards the violations that are NOT listed findings, so that a case showing a listed
                # finding and something else cannot collapse to the listed finding alone
                from . import findings as findings_mod
                known = findings_mod.load_known(pid)
                target = [v for v in r["violations"] if not findings_mod.match(known, v)] or r["violations"]
                case2 = mod.shrink(case, target, deadline=time.time() + 45)
                if case2 is not None:
                    r2 = run_one(mod, case2)
                    if r2.get("violations"):
                        r = r2
                        r["case"] = case2
            except Exception:     # noqa
                r["shrink_error"] = traceback.format_exc()
        with open(out, "w") as f:
            f.write(json.dumps(r, default=repr))
        return 0
    inp, out = argv[1], argv[2]
    with open(inp) as f:
        cases = json.load(f)
    with open(out, "w") as f:
        for case in cases:
            r = run_one(mod, case)
            f.write(json.dumps(r, default=repr) + "\n")
            f.flush()
    return 0


if __name__ == "__main__":
    sys.exit(main(sys.argv[1:]))
