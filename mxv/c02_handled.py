"""C02 directed probe: dependencies that exist only through a callee whose failure the formula handled.

`S.guarded` calls `S.mid` (optionally uncached), which calls `S.risky`, which (directly or one level deeper, in
`S.deep`) divides by a source value and fails with ZeroDivisionError; `guarded` catches the failure and returns -1.
Then the source is edited so that the division succeeds.  Oracle: the property's own - a model to which only the
edits were applied (never evaluated) answers `S.guarded()`; the live model, which evaluated before the edit, must
return the same.

Sources (dependency kinds from the failing callee to the edited thing):
  cellvalue  the callee called a cells of the same space that holds an input; edit: clear_at of the input
  cellassign same; edit: assignment of another value to the input
  attrref    the callee read a reference of another space by attribute path; edit: reference re-assigned
  formula    the callee called a cells of another space; edit: formula of that cells changed
  nameref    the callee read a reference of its own space by name; edit: reference re-assigned (namespace change)

Modes:
  only       the dependency exists only inside the failed callee
  selfread   the handler of `guarded` reads the source itself after catching (the dependency is also guarded's own)
  laterok    the callee does not fail the first time; the edit makes it fail (ordinary dependency, handled afterwards)

On the pinned tree the `only` mode is stale for every source except `nameref` (rollback removes the node of the
failed callee together with its incoming edges and drops the references it read, so nothing ties `guarded` to the
source): genuine, listed per source in known_findings.json.  The other modes hold and are judged normally.
"""
from .mxutil import mx, reset_session

SOURCES = ("cellvalue", "cellassign", "attrref", "formula", "nameref")
MODES = ("only", "selfread", "laterok")

_SRC = {"cellvalue": "inp()", "cellassign": "inp()", "attrref": "V.y", "formula": "V.vc()", "nameref": "z"}


def cases():
    i = 0
    for src in SOURCES:
        for mode in MODES:
            for unc in (0, 1):
                for depth in (0, 1):
                    yield {"id": "hf%d" % i, "kind": "handled", "source": src, "mode": mode, "uncached": unc,
                           "depth": depth, "seed": i}
                    i += 1


def build(name, c):
    m = mx.new_model(name)
    S = m.new_space("S")
    V = m.new_space("V")
    V.y = 0
    S.V = V
    S.z = 0
    S.new_cells("inp", formula="def inp():\n    return 5")
    V.new_cells("vc", formula="def vc():\n    return 0")
    e = _SRC[c["source"]]
    S.new_cells("deep", formula="def deep():\n    return 10 // %s" % e)
    S.new_cells("risky", formula="def risky():\n    return %s" % ("deep()" if c["depth"] else "10 // " + e))
    S.new_cells("mid", formula="def mid():\n    return risky()", is_cached=not c["uncached"])
    tail = "-1" if c["mode"] != "selfread" else "-1 - %s" % e
    S.new_cells("guarded", formula="def guarded():\n    try:\n        return mid()\n"
                                   "    except ZeroDivisionError:\n        return %s" % tail)
    return m


def pre(m, c, bad):
    """puts the source into the failing (bad) or the succeeding state; part of the edits (applied to both models)"""
    v = 0 if bad else 5
    s = c["source"]
    if s in ("cellvalue", "cellassign"):
        m.S.inp = v            # scalar cells: assignment of an input
    elif s == "attrref":
        m.V.y = v
    elif s == "formula":
        m.V.vc.set_formula("def vc():\n    return %d" % v)
    else:
        m.S.z = v


def edit(m, c, bad):
    s = c["source"]
    if s == "cellvalue" and not bad:
        m.S.inp.clear_at()     # the formula of inp gives 5
    elif s == "cellassign":
        m.S.inp = 0 if bad else 2
    elif s == "cellvalue":
        m.S.inp = 0
    elif s == "attrref":
        m.V.y = 0 if bad else 2
    elif s == "formula":
        m.V.vc.set_formula("def vc():\n    return %d" % (0 if bad else 2))
    else:
        m.S.z = 0 if bad else 2


def _try(fn, *a):
    try:
        fn(*a)
        return "ok"
    except Exception as e:      # noqa
        return "raised " + type(e).__name__


def _val(m):
    try:
        return m.S.guarded()
    except Exception as e:      # noqa
        return ["ERR", type(e).__name__]


def signature(c):
    if c["mode"] == "only":
        return "stale value: dependency only through a callee whose failure the formula handled [%s]" % c["source"]
    return "stale value after a handled failure of a callee (%s, %s)" % (c["mode"], c["source"])


def run(c):
    reset_session()
    first_bad = c["mode"] != "laterok"
    live = build("M", c)
    pre(live, c, first_bad)
    v0 = _val(live)
    preds0 = sorted(repr(n) for n in live.S.guarded.preds())
    live_edit = _try(edit, live, c, not first_bad)
    v1 = _val(live)
    fresh = build("F", c)
    pre(fresh, c, first_bad)
    fresh_edit = _try(edit, fresh, c, not first_bad)
    v2 = _val(fresh)
    # the fixture must do what it says: the first evaluation is the handled (resp. successful) one and the edit
    # changes the answer of the fresh model
    handled_first = (v0 == -1 or (c["mode"] == "selfread" and v0 == -1))
    fixture_ok = (handled_first if first_bad else v0 == 2) and v2 != v0
    vio = []
    if live_edit != fresh_edit:
        # the same valid edit raises on the model that evaluated before and not on the one that did not
        vio.append({"kind": "accept", "signature": "an edit is accepted or rejected depending on earlier evaluations",
                    "detail": {"case": {k: c[k] for k in ("source", "mode", "uncached", "depth")},
                               "live": live_edit, "fresh": fresh_edit}})
    elif fixture_ok and v1 != v2:
        vio.append({"kind": "stale", "signature": signature(c),
                    "detail": {"case": {k: c[k] for k in ("source", "mode", "uncached", "depth")},
                               "before_edit": v0, "live": v1, "fresh": v2, "preds_of_guarded_before_edit": preds0}})
    cnt = {"handled_probes": 1, "handled_probe_fixture_ok": int(fixture_ok), "queries_compared": 1, "edits": 2,
           "effective_edits": int(v2 != v0), "handled_first_evaluations": int(first_bad and v0 == -1)}
    for mm in (live, fresh):
        try:
            mm.close()
        except Exception:   # noqa
            pass
    return {"violations": vio, "counters": cnt, "nontrivial": fixture_ok,
            "shape": "handled|%s|%s|%d|%d" % (c["source"], c["mode"], c["uncached"], c["depth"]),
            "matrix": {"handled_failure": {"%s/%s" % (c["source"], c["mode"]): 1}}, "case": c,
            "sample": {"kind": "handled", "case": {k: c[k] for k in ("source", "mode", "uncached", "depth")},
                       "before_edit": v0, "live": v1, "fresh": v2}}
