"""Helpers shared by all property modules: session reset, value-or-error, public
snapshot, walking, held values, the invariant walker."""
import math

from . import env

mx = env.import_modelx()
from modelx.core.errors import DeletedObjectError     # noqa: E402
from modelx.core.base import Interface                # noqa: E402


HARNESS_MAXDEPTH = 1500


class Inconclusive(Exception):
    """the harness could not observe what it needed; never a verdict"""


def executor_idle():
    """public-ish view of 'no formula is left marked as executing'"""
    ex = mx.core.mxsys.executor
    probs = []
    try:
        if ex.is_executing:
            probs.append("is_executing")
        if len(ex.callstack):
            probs.append("callstack=%d" % len(ex.callstack))
        if getattr(ex.callstack, "counter", 0):
            probs.append("counter=%r" % ex.callstack.counter)
        if len(ex.refstack):
            probs.append("refstack=%d" % len(ex.refstack))
    except AttributeError as e:      # internals renamed: cannot observe
        raise Inconclusive("executor internals not observable: %s" % e)
    return probs


def reset_session():
    for m in list(mx.get_models().values()):
        try:
            m.close()
        except Exception:     # noqa
            pass
    if mx.get_models():
        # registry refuses to empty: force a fresh state the only way available
        mx.core.mxsys.models.clear()
    mx.set_recalc(False)
    mx.use_formula_error(True)
    mx.set_recursion(HARNESS_MAXDEPTH)     # a runaway chain ends quickly; C05 sets its own limits
    ex = mx.core.mxsys.executor
    if executor_idle():
        # a previous case left the executor dirty: repair so that cases stay independent
        ex.callstack.clear()
        ex.callstack.idxstack.clear()
        ex.callstack.counter = 0
        ex.refstack.clear()
        ex.is_executing = False


def errclass(e):
    """class name of the *original* exception of a failed API call (DESIGN 2.6)"""
    from modelx.core.errors import FormulaError
    if isinstance(e, FormulaError):
        err = mx.get_error()
        return type(err).__name__ if err is not None else "FormulaError"
    return type(e).__name__


def val(fn, *a, **k):
    """value, or ('ERR', original exception class name)"""
    try:
        return fn(*a, **k)
    except DeletedObjectError:
        return ("ERR", "DeletedObjectError")
    except Exception as e:      # noqa
        return ("ERR", errclass(e))
    except BaseException as e:  # noqa  (user BaseException subclasses injected by fault workloads)
        if isinstance(e, (KeyboardInterrupt, SystemExit, GeneratorExit)):
            raise
        return ("ERR", type(e).__name__)


def canon(v):
    """JSON-able canonical form of a value for comparison / reporting"""
    if isinstance(v, float):
        if math.isnan(v):
            return "nan"
        return v
    if isinstance(v, (int, str, bool)) or v is None:
        return v
    if isinstance(v, Interface):
        try:
            return {"obj": v._evalrepr if v._is_valid() else "<deleted>", "type": type(v).__name__}
        except Exception:    # noqa
            return {"obj": "<unprintable>"}
    if isinstance(v, tuple):
        return {"t": [canon(x) for x in v]}
    if isinstance(v, list):
        return [canon(x) for x in v]
    if isinstance(v, dict):
        return {"d": sorted(((repr(k), canon(x)) for k, x in v.items()))}
    if isinstance(v, (set, frozenset)):
        return {"s": sorted(repr(x) for x in v)}
    return {"r": type(v).__name__ + ":" + repr(v)[:200]}


def walk_spaces(model):
    st = list(model.spaces.values())
    while st:
        s = st.pop()
        yield s
        st.extend(s.spaces.values())


def get(model, path):
    o = model
    for p in path.split("."):
        o = getattr(o, p)
    return o


def relpath(obj):
    """dotted path of a static object below its model"""
    return obj.fullname.split(".", 1)[1] if "." in obj.fullname else ""


def refdesc(owner, name):
    p = owner._get_object(name, as_proxy=True)
    v = p.value
    if isinstance(v, Interface):
        vd = ["obj", relfull(v), type(v).__name__]
    else:
        vd = ["val", canon(v)]
    d = {"value": vd, "mode": p.refmode}
    try:
        d["derived"] = bool(p.is_derived())
    except Exception:     # noqa
        pass
    return d


def relfull(v):
    try:
        if not v._is_valid():
            return "<deleted>"
        fn = v.fullname
    except Exception:     # noqa
        return "<broken>"
    return fn.split(".", 1)[1] if "." in fn else "<model>"


def cells_inputs(c):
    out = {}
    try:
        items = list(dict(c).items())
    except Exception:     # noqa
        return {"<broken>": True}
    for k, v in items:
        key = k if isinstance(k, tuple) else (k,)
        try:
            if c.is_input(*key):
                out[repr(key)] = canon(v)
        except Exception:  # noqa
            pass
    return out


def snap_cells(c, inputs=True):
    d = {"src": c.formula.source if c.formula is not None else None,
         "params": list(c.parameters) if c.parameters is not None else None,
         "cached": c.is_cached, "allow_none": c.allow_none, "doc": c.doc,
         "derived": c._is_derived()}
    if inputs:
        d["inputs"] = cells_inputs(c)
    return d


def snap_space(s, inputs=True):
    d = {
        "doc": s.doc, "allow_none": s.allow_none,
        "formula": s.formula.source if s.formula is not None else None,
        "direct_bases": [relfull(b) for b in s._direct_bases],
        "bases": [relfull(b) for b in s.bases],
        "cells": {}, "refs": {}, "spaces": {},
    }
    for n, c in s.cells.items():
        try:
            d["cells"][n] = snap_cells(c, inputs)
        except Exception as e:    # noqa   half-constructed member: part of the description
            d["cells"][n] = {"broken": type(e).__name__}
    for n in s._own_refs:
        try:
            d["refs"][n] = refdesc(s, n)
        except Exception as e:    # noqa
            d["refs"][n] = {"broken": type(e).__name__}
    for n, ch in s.named_spaces.items():
        d["spaces"][n] = snap_space(ch, inputs)
    return d


def snap_model(m, inputs=True, with_name=True):
    d = {"doc": m.doc, "allow_none": m.allow_none, "refs": {}, "spaces": {}}
    if with_name:
        d["name"] = m.name
    for n in m.refs:
        if n != "__builtins__":
            try:
                d["refs"][n] = refdesc(m, n)
            except Exception as e:   # noqa
                d["refs"][n] = {"broken": type(e).__name__}
    for n, s in m.named_spaces.items() if hasattr(m, "named_spaces") else m.spaces.items():
        d["spaces"][n] = snap_space(s, inputs)
    return d


def dict_diff(a, b, path=""):
    """list of paths where two nested JSON-like structures differ"""
    out = []
    if isinstance(a, dict) and isinstance(b, dict):
        for k in sorted(set(a) | set(b), key=repr):
            if k not in a:
                out.append((path + "/" + str(k), "<absent>", b[k]))
            elif k not in b:
                out.append((path + "/" + str(k), a[k], "<absent>"))
            else:
                out.extend(dict_diff(a[k], b[k], path + "/" + str(k)))
    elif a != b:
        out.append((path, a, b))
    return out


def held(model):
    """{cells fullname: {key: value}} of every static cells holding something"""
    out = {}
    for s in walk_spaces(model):
        for c in s.cells.values():
            try:
                d = dict(c)
            except Exception as e:   # noqa
                out[c.fullname] = {"<broken>": type(e).__name__}
                continue
            if d:
                out[c.fullname] = d
    return out


def sanity(model=None):
    """the library's own self checks + executor idle; returns list of problems"""
    probs = []
    try:
        mx.core.mxsys._check_sanity()
    except AssertionError as e:
        import traceback
        tb = traceback.extract_tb(e.__traceback__)
        probs.append("system._check_sanity: %s:%s %s" % (tb[-1].name, tb[-1].lineno, tb[-1].line))
    except Exception as e:    # noqa
        probs.append("system._check_sanity raised %s: %s" % (type(e).__name__, e))
    if model is not None:
        for s in walk_spaces(model):
            for c in s.cells.values():
                try:
                    if c.is_cached:
                        # CellsImpl.check_sanity raises IndexError on the 1-tuple object
                        # nodes of uncached cells: only called for cached ones
                        c._impl.check_sanity()
                    elif len(c):
                        probs.append("uncached cells %s holds %d values" % (c.fullname, len(c)))
                except AssertionError:
                    probs.append("cells.check_sanity: %s" % c.fullname)
                except Exception as e:   # noqa
                    probs.append("cells.check_sanity raised %s at %s" % (type(e).__name__, c.fullname))
    probs.extend("executor not idle: " + p for p in executor_idle())
    return probs
