"""C15 generator: models of the documented export subset as op lists, with a formula
grammar whose subject is the *source text* (scopes, comprehensions, lambdas, nested
functions, classes, shadowing), plus the interpreter that builds a model from the ops.

Termination: every cells name has one global rank and one signature in the whole
model; a formula calls only names of lower rank (wherever they resolve) or itself with
``x - 1`` under ``x > 0``.  All call arguments stay in {0..3}.  Every term is an int, so
any name can stand in for any other; only the leaf cells t0/t1 return structured values.
"""
import random

# name, parameter text, parameter names.  rank = index.
CELL_SIGS = [
    ("k0", "", []),
    ("zd", "x", ["x"]),            # 6 // (x - 2): raises at x == 2 (callers wrap it in try)
    ("d0", "x", ["x"]),
    ("abs", "x", ["x"]),
    ("d1", "x, y=1", ["x", "y"]),
    ("k1", "", []),
    ("ul", "x", ["x"]),            # always uncached, takes a list (unhashable) argument
    ("c0", "x", ["x"]),
    ("max", "x, y=0", ["x", "y"]),
    ("c1", "x, y=2", ["x", "y"]),
    ("min", "x, y=3", ["x", "y"]),
    ("mu", "x", ["x"]),            # returns a fresh list (mutable-return helper)
    ("c2", "x", ["x"]),
    ("c3", "x, y=1", ["x", "y"]),  # (x, k=1) in models where the keyword-like-global form is enabled
    ("c4", "x", ["x"]),
    ("c5", "x, y=0", ["x", "y"]),
    ("t0", "x", ["x"]),            # leaves: structured values, never called by other cells
    ("t1", "x, y=1", ["x", "y"]),
]
RANK = {n: i for i, (n, _, _) in enumerate(CELL_SIGS)}
SIG = {n: (ptxt, pn) for n, ptxt, pn in CELL_SIGS}
BUILTIN_CELLS = ("abs", "max", "min")
LEAVES = ("t0", "t1")
CHILD_POOL = ["k0", "zd", "d0", "abs", "d1", "k1", "ul"]
TOP_POOL = [n for n, _, _ in CELL_SIGS if n not in ("k0", "zd", "d0", "d1")]
NOT_CALLABLE = ("t0", "t1", "mu", "zd", "ul")     # never called through the generic call forms
INT_REFS = ["r", "s", "k", "v"]
SHADOW_LOCALS = ["id", "type", "vars", "round", "any", "hash"]


def mkval(d):
    """plain-data description -> reference value"""
    if "lit" in d:
        return d["lit"]
    if "inf" in d:
        return float({1: "inf", -1: "-inf", 0: "nan"}[d["inf"]])
    if "tuple" in d:
        return tuple(mkval(x) for x in d["tuple"])
    if "list" in d:
        return [mkval(x) for x in d["list"]]
    if "dict" in d:
        return {k: mkval(x) for k, x in d["dict"]}
    if "fset" in d:
        return frozenset(d["fset"])
    if "bytes" in d:
        return d["bytes"].encode()
    if "complex" in d:
        return complex(*d["complex"])
    if "range" in d:
        return range(*d["range"])
    raise ValueError(d)


def cell_source(op):
    """source text of a cells op"""
    name = op["name"]
    if op.get("src") is not None:
        return op["src"]
    if op.get("lam"):
        return "lambda %s: %s" % (op["params"], op["expr"]) if op["params"] else "lambda: %s" % op["expr"]
    lines = ["def %s(%s):" % (name, op["params"])]
    if op.get("doc"):
        lines.append('    """%s"""' % op["doc"])
    ts = []
    for b in op["blocks"]:
        if b.get("nop"):
            continue
        for ln in b["code"].split("\n"):
            lines.append("    " + ln)
        if b.get("t"):
            ts.append(b["t"])
    ret = op.get("ret", "sum")
    tot = " + ".join(ts) if ts else "0"
    if ret == "sum":
        lines.append("    return " + tot)
    else:
        lines.append("    return " + ret.replace("@", "(" + tot + ")"))
    return "\n".join(lines)


class Sp:
    def __init__(self, name, parent, bases=(), params=None):
        self.name = name
        self.parent = parent
        self.bases = list(bases)
        self.params = params          # None | [(name, default or None)]
        self.cells = {}               # own definitions (incl. overrides): name -> True
        self.refs = {}                # own: name -> kind
        self.children = {}
        self.formula_refs = []        # names returned in `refs` by the parameter formula (known-finding switch)

    @property
    def path(self):
        return self.name if self.parent is None else self.parent.path + "." + self.name

    def ancestors(self):
        s = self.parent
        while s is not None:
            yield s
            s = s.parent

    def in_param_tree(self):
        return self.params is not None or any(a.params is not None for a in self.ancestors())

    def mro(self):
        seqs = [b.mro() for b in self.bases] + [list(self.bases)]
        out = [self]
        seqs = [list(s) for s in seqs if s]
        while seqs:
            for s in seqs:
                h = s[0]
                if not any(h in t[1:] for t in seqs):
                    break
            else:
                raise TypeError("inconsistent")
            out.append(h)
            seqs = [[x for x in t if x is not h] for t in seqs]
            seqs = [t for t in seqs if t]
        return out

    def vis_cells(self):
        out = {}
        for s in self.mro():
            for n in s.cells:
                out.setdefault(n, s)
        return out

    def vis_refs(self):
        out = {}
        for s in self.mro():
            for n, k in s.refs.items():
                out.setdefault(n, k)
        return out

    def all_params(self):
        """parameters readable by name in instances of this space"""
        out = []
        s = self
        while s is not None:
            if s.params is not None:
                out += [p for p, _ in s.params]
            s = s.parent
        return out


class Cx:
    """context of one formula under construction"""
    def __init__(self, g, sp, name, params, lam=False):
        self.g = g
        self.sp = sp
        self.name = name
        self.rank = RANK[name]
        self.params = list(params)
        self.locals = []              # int locals usable from here on
        self.lfuncs = []              # local one-argument callables (lambda / nested def)
        self.hidden = set()           # global names that are local in this function: never read by bare name
        self.tags = set()
        self.n = 0
        self.lam = lam
        self.scope_vars = []          # comprehension / lambda variables in scope

    def fresh(self, p):
        self.n += 1
        return "%s%d_" % (p, self.n)


class Gen:
    def __init__(self, rnd, feat=None):
        self.rnd = rnd
        f = dict(itemspaces=True, inheritance=True, objrefs=True, uncached=0.22, lambdas=0.15,
                 risky=0.012, clash_model_ref=0.04, depth=2)
        # `risky`: probability, per model and per mechanism, that a form which triggers one of the translation
        # defects listed in known_findings.json is enabled in this model (low, never zero, unless the case
        # descriptor sets it to 0).  The shapes repaired in /repo (`on`) are ordinary forms.
        f.update(feat or {})
        self.rk = {k: (rnd.random() < f["risky"]) for k in ("class_method", "try_else", "class_attr", "space_refs")}
        for k in f.get("force", ()):
            self.rk[k] = True
        self.on = {"inf": rnd.random() < 0.15, "kwglobal": rnd.random() < 0.3, "comp_target": rnd.random() < 0.4,
                   "paren": rnd.random() < 0.4, "clash": rnd.random() < 0.05, "dunder": rnd.random() < 0.25}
        if f.get("only_on") is not None:      # development: exactly these repaired shapes, in every model
            self.on = {k: k in f["only_on"] for k in self.on}
        f.update(feat or {})
        self.f = f
        self.sig = dict(SIG)
        if self.on["kwglobal"]:
            self.sig["c3"] = ("x, k=1", ["x", "k"])     # parameter named like a reference
        self.ops = []
        self.tops = {}
        self.model_refs = {}
        self.shadowed = set()         # builtin names used as cells / reference names somewhere in the model

    # ------------------------------------------------------------------ structure
    def emit(self, op):
        self.ops.append(op)
        return op

    def all_spaces(self):
        st = list(self.tops.values())
        while st:
            s = st.pop(0)
            yield s
            st.extend(s.children.values())

    def build(self):
        rnd = self.rnd
        # which builtin names get shadowed by cells / references in this model
        for n in BUILTIN_CELLS:
            if rnd.random() < 0.35:
                self.shadowed.add(n)
        self.ref_shadow = rnd.choice([None, None, "len", "sum", "sorted"])
        if self.rk["try_else"]:
            # the listed finding is "export fails or NameError": with names that are also builtins an
            # unprefixed name would silently read the builtin instead
            self.shadowed.clear()
            self.ref_shadow = None
        if self.ref_shadow:
            self.shadowed.add(self.ref_shadow)
        self.mref("g", "int", {"lit": rnd.randint(1, 9)})
        self.mref("w", "int", {"lit": rnd.randint(1, 9)})
        if self.ref_shadow and rnd.random() < 0.5:
            self.mref(self.ref_shadow, "int", {"lit": rnd.randint(20, 29)})
        if rnd.random() < 0.3:
            self.mref("mth", "module", {"module": "math"})
        if rnd.random() < 0.3:
            self.mref("gt", "tuple", {"tuple": [{"lit": rnd.randint(1, 5)} for _ in range(3)]})
        if self.f["itemspaces"] and rnd.random() < 0.3:
            # a model-level reference named like the parameter of P: the cells of P then evaluate in the static
            # space too (with this value) and differently in every instance - static and dynamic counterparts of a
            # cells become distinguishable by value
            self.mref("p", "int", {"lit": rnd.randint(60, 69)})
        A = self.space("A", None)
        self.fill(A, TOP_POOL)
        plan = []
        if self.f["itemspaces"]:
            plan.append("P")
        if self.f["inheritance"]:
            plan += rnd.choice([["B"], ["B", "C"], ["B", "C", "D"], ["B"]])
        elif rnd.random() < 0.5:
            plan.append("B0")
        rnd.shuffle(plan)
        for t in plan:
            if t == "P":
                bases = [A] if self.f["inheritance"] and rnd.random() < 0.4 and "me" not in A.vis_refs() else []
                # (a parameter named like a built-in is a listed defect of its own - the export leaves the name
                # unqualified - and is exercised by the directed probe of K_PARAM only)
                P = self.space("P", None, bases=bases, params=self.gen_params(["p", "q"]))
                self.fill(P, TOP_POOL)
            elif t == "B":
                B = self.space("B", None, bases=[A])
                self.fill(B, TOP_POOL, few=True)
            elif t == "C":
                bases = [A] if rnd.random() < 0.6 or "B" not in self.tops else [self.tops["B"]]
                C = self.space("C", None, bases=bases)
                self.fill(C, TOP_POOL, few=True)
            elif t == "D":
                if "B" in self.tops and "C" in self.tops and self.tops["C"].bases == [A]:
                    bases = [self.tops["B"], self.tops["C"]]
                elif "C" in self.tops:
                    bases = [self.tops["C"]]
                else:
                    bases = [A]
                dp = None
                if self.f["itemspaces"] and rnd.random() < 0.3 and not any("me" in b.vis_refs() for b in bases):
                    dp = self.gen_params(["p"])
                D = self.space("D", None, bases=bases, params=dp)
                self.fill(D, TOP_POOL, few=True)
            elif t == "B0":
                B0 = self.space("B", None)
                self.fill(B0, TOP_POOL)
        self.late()
        return self

    def gen_params(self, names):
        rnd = self.rnd
        ps = [(names[0], None)]
        if len(names) > 1 and rnd.random() < 0.6:
            ps.append((names[1], rnd.randint(1, 3)))
        elif len(names) > 1 and rnd.random() < 0.3:
            ps.append((names[1], None))
        return ps

    def space(self, name, parent, bases=(), params=None):
        rnd = self.rnd
        s = Sp(name, parent, bases, params)
        (self.tops if parent is None else parent.children)[name] = s
        formula = None
        if params is not None:
            ptxt = ", ".join(p if d is None else "%s=%d" % (p, d) for p, d in params)
            form = rnd.random()
            if self.rk["space_refs"]:
                s.formula_refs = ["t2"]
                formula = "def _formula(%s):\n    return {'refs': {'t2': %s * 10 + 1}}" % (ptxt, params[0][0])
            elif form < 0.35:
                formula = "lambda %s: None" % ptxt
            elif form < 0.7:
                formula = "def _formula(%s):\n    return None" % ptxt
            else:
                formula = "def _formula(%s):\n    pass" % ptxt
        self.emit({"op": "space", "parent": parent.path if parent else "", "name": name,
                   "bases": [b.path for b in bases], "formula": formula,
                   "params": [list(p) for p in params] if params is not None else None})
        return s

    def mref(self, name, kind, value):
        self.model_refs[name] = kind
        self.emit({"op": "ref", "space": "", "name": name, "value": value})

    def ref(self, sp, name, kind, value, mode=None):
        sp.refs[name] = kind
        op = {"op": "ref", "space": sp.path, "name": name, "value": value}
        if mode:
            op["mode"] = mode
        self.emit(op)

    def fill(self, sp, pool, few=False, depth=0):
        """references, then children (complete), then cells"""
        rnd = self.rnd
        vis = sp.vis_refs()
        viscells = sp.vis_cells()
        # -- literal / pickled references
        names = rnd.sample(INT_REFS, rnd.randint(1, 3) if not few else rnd.randint(0, 2))
        for n in names:
            if n in viscells or n in sp.children:
                continue
            if self.on["inf"] and rnd.random() < 0.2 and n not in vis:
                self.ref(sp, n, "inf", {"inf": rnd.choice([1, 1, -1, 0])})
                continue
            self.ref(sp, n, "int", {"lit": rnd.randint(1, 9)})
        if self.ref_shadow and self.ref_shadow not in self.model_refs and rnd.random() < 0.5 \
                and self.ref_shadow not in vis:
            self.ref(sp, self.ref_shadow, "int", {"lit": rnd.randint(20, 29)})
        if not few or rnd.random() < 0.3:
            for n, kind, p in (("tup", "tuple", 0.45), ("dct", "dict", 0.3), ("st", "str", 0.3), ("fl", "float", 0.25),
                               ("lst", "list", 0.2), ("nn", "none", 0.1), ("bb", "bool", 0.1), ("big", "pick", 0.15)):
                if rnd.random() < p and n not in vis:
                    self.ref(sp, n, kind, self.gen_value(kind))
        # -- object-valued references to earlier (complete) static spaces / their cells / parametrised spaces
        if self.f["objrefs"] and rnd.random() < 0.55:
            self.add_objrefs(sp)
        # -- children
        if depth == 0:
            mirrored = []
            for b in sp.mro()[1:]:
                for cn, ch in b.children.items():
                    if cn not in sp.children and cn not in mirrored and rnd.random() < 0.8:
                        mirrored.append(cn)
                        c = self.space(cn, sp, bases=[ch], params=ch.params)
                        self.fill(c, CHILD_POOL, few=True, depth=1)
                        for gn, gc in ch.children.items():
                            g2 = self.space(gn, c, bases=[gc], params=gc.params)
                            self.fill(g2, CHILD_POOL[:4], few=True, depth=2)
            if "Ch" not in sp.children and rnd.random() < 0.6 and not sp.mro()[1:]:
                cp = None
                if self.f["itemspaces"] and rnd.random() < (0.6 if sp.params is not None else 0.25):
                    # (now and then named like the first parameter of an enclosing parametrised space: inside the
                    # nested instance the name then denotes the inner argument)
                    outer = sp.all_params()
                    cp = self.gen_params([outer[0] if outer and rnd.random() < 0.35 else "n"])
                c = self.space("Ch", sp, params=cp)
                self.fill(c, CHILD_POOL, depth=1)
        elif depth == 1 and "Gc" not in sp.children and not sp.bases and rnd.random() < 0.3:
            cp = None
            if self.f["itemspaces"] and rnd.random() < (0.5 if sp.params is not None else 0.25):
                outer = sp.all_params()
                cp = self.gen_params([outer[0] if outer and rnd.random() < 0.35 else "z"])
            c = self.space("Gc", sp, params=cp)
            self.fill(c, CHILD_POOL[:4], depth=2)
        # -- cells
        self.fill_cells(sp, pool, few)

    def gen_value(self, kind):
        rnd = self.rnd
        if kind == "tuple":
            return {"tuple": [{"lit": rnd.randint(1, 6)} for _ in range(3)]}
        if kind == "list":
            return {"list": [{"lit": rnd.randint(1, 6)} for _ in range(3)]}
        if kind == "dict":
            return {"dict": [["a", {"lit": rnd.randint(1, 6)}], ["b", {"lit": rnd.randint(1, 6)}]]}
        if kind == "str":
            return {"lit": rnd.choice(["banana", "a'b\"c", "x" * 90 + "a", "line\nbreak a"])}
        if kind == "float":
            return {"lit": rnd.choice([0.5, 2.25, -1.5, 1e-3, 1e22])}
        if kind == "none":
            return {"lit": None}
        if kind == "bool":
            return {"lit": rnd.random() < 0.5}
        if kind == "pick":
            return rnd.choice([
                {"dict": [["a", {"tuple": [{"lit": 1}, {"list": [{"lit": 2}, {"lit": 3}]}]}], ["b", {"lit": None}]]},
                {"fset": [1, 2, 3]}, {"bytes": "abc"}, {"complex": [1, 2]}, {"range": [0, 4]},
                {"tuple": [{"lit": "s"}, {"lit": 1.5}, {"lit": True}]},
            ])
        raise ValueError(kind)

    def add_objrefs(self, sp):
        rnd = self.rnd
        done = [s for s in self.all_spaces() if s is not sp and s.cells and s not in sp.ancestors()
                and sp not in s.ancestors()]
        static = [s for s in done if not s.in_param_tree()]
        inside = sp.in_param_tree()
        vis = sp.vis_refs()
        if static and "o1" not in vis and rnd.random() < 0.7:
            t = rnd.choice(static)
            # auto mode only for targets outside every space tree involved (never rebound): same binding
            # whatever the mode; absolute otherwise
            self.ref(sp, "o1", "space:" + t.path, {"space": t.path}, mode=rnd.choice(["absolute", "auto"])
                     if t.parent is None and not self._related(sp, t) else "absolute")
        if static and "o2" not in vis and rnd.random() < 0.5:
            t = rnd.choice(static)
            cands = [n for n in t.vis_cells() if n not in NOT_CALLABLE]
            if cands:
                n = rnd.choice(cands)
                self.ref(sp, "o2", "cell:" + n, {"cell": t.path + "." + n}, mode="absolute")
        pspaces = [s for s in done if s.params is not None and not any(a.params is not None for a in s.ancestors())]
        if pspaces and "o3" not in vis and rnd.random() < 0.5:
            t = rnd.choice(pspaces)
            self.ref(sp, "o3", "pspace:" + t.path, {"space": t.path}, mode="absolute")
        if not inside and not sp.bases and "me" not in vis and rnd.random() < 0.25 and sp.parent is None:
            # reference to the defining space itself, auto mode: rebound to the deriving space in static subs
            self.ref(sp, "me", "self", {"space": sp.path}, mode=rnd.choice(["auto", "relative"]))

    def _related(self, a, b):
        """is b a base/sub of a, or inside the same top-level tree"""
        ta = a
        while ta.parent is not None:
            ta = ta.parent
        tb = b
        while tb.parent is not None:
            tb = tb.parent
        if ta is tb:
            return True
        return any(tb in s.mro() for s in self._tree(ta)) or any(ta in s.mro() for s in self._tree(tb))

    def _tree(self, s):
        yield s
        for c in s.children.values():
            yield from self._tree(c)

    def fill_cells(self, sp, pool, few=False):
        rnd = self.rnd
        n = rnd.randint(1, 3) if few else rnd.randint(3, 6)
        names = sorted(rnd.sample(pool, min(n, len(pool))), key=lambda x: RANK[x])
        for name in names:
            if name in BUILTIN_CELLS and name not in self.shadowed:
                continue
            vis = sp.vis_cells()
            if name in sp.vis_refs() or name in sp.children or name in self.model_refs:
                continue
            if name in sp.cells:
                continue
            op = self.gen_cell(sp, name)
            if name in vis:
                if rnd.random() < 0.6:
                    op["op"] = "override"
                    sp.cells[name] = True
                    self.emit(op)
                continue
            sp.cells[name] = True
            self.emit(op)
            if self.f["objrefs"] and sp.in_param_tree() and name not in NOT_CALLABLE and "o4" not in sp.vis_refs() \
                    and rnd.random() < 0.35:
                # an absolute reference to a cells of the parametrised tree itself: in an instance it keeps denoting
                # the static cells (the cells created after it may call through it)
                self.ref(sp, "o4", "cell:" + name, {"cell": sp.path + "." + name}, mode="absolute")

    def late(self):
        rnd = self.rnd
        if self.on["clash"]:
            # a model-level reference named like a cells of some space (the cells wins in that space)
            cands = sorted({n for s in self.all_spaces() for n in s.cells if n not in BUILTIN_CELLS})
            if cands:
                n = rnd.choice(cands)
                if not any(n in s.refs or n in s.children for s in self.all_spaces()):
                    self.mref(n, "int", {"lit": rnd.randint(50, 59)})
                    self.ops[-1]["tags"] = ["model-ref-named-like-cells"]
        if rnd.random() < 0.2:
            self.emit({"op": "allow_none", "space": "", "value": True})

    # ------------------------------------------------------------------ formulas
    def gen_cell(self, sp, name):
        rnd = self.rnd
        ptxt, pnames = self.sig[name]
        cached = rnd.random() >= self.f["uncached"]
        op = {"op": "cells", "space": sp.path, "name": name, "params": ptxt, "cached": cached}
        if name == "zd":
            op.update(blocks=[{"code": "t0 = 6 // (x - 2)", "t": "t0", "tags": ["raises"]}], ret="sum")
            return op
        if name == "mu":
            op.update(blocks=[{"code": "t0 = [x, %s]" % self.atom(Cx(self, sp, name, pnames)), "t": None,
                               "tags": ["mutable-return"]}], ret="t0")
            return op
        if name == "ul":
            cx0 = Cx(self, sp, name, [])
            op.update(cached=False, blocks=[{"code": "t0 = x[0] + x[-1] + %s" % self.atom(cx0), "t": "t0",
                                             "tags": ["list-argument"]}], ret="sum")
            return op
        lam = rnd.random() < self.f["lambdas"]
        cx = Cx(self, sp, name, pnames, lam=lam)
        if lam:
            e = self.term(cx, self.f["depth"])
            if name in LEAVES:
                e = self.leaf_wrap(cx, e)
            op.update(lam=True, expr=e, tags=sorted(cx.tags))
            return op
        blocks = []
        nb = rnd.choice([1, 1, 2, 2, 3, 4])
        # statements that make a global name local to the whole function come first
        if rnd.random() < 0.12:
            blocks.append(self.stmt_hide_global(cx))
        for _ in range(nb):
            blocks.append(self.stmt(cx))
        blocks = [b for b in blocks if b]
        op["blocks"] = blocks
        if rnd.random() < 0.15:
            op["doc"] = rnd.choice(["doc of %s" % name, "uses r, k and max"])
        if name in LEAVES:
            op["ret"] = self.leaf_wrap(cx, "@")
            op["tags"] = self._take(cx)
        else:
            op["ret"] = "sum"
        return op

    def leaf_wrap(self, cx, e):
        rnd = self.rnd
        cx.tags.add("structured-value")
        pe = e if e == "@" else self.P(e)
        return rnd.choice(["(%s, %s)" % (e, self.atom(cx)), "[%s, 'a']" % e, "{'v': %s, 1: (2, 3)}" % e,
                           "str(%s)" % e, "%s / 4" % pe, "{%s, 1}" % e, "%s > 3" % pe, "(%s,)" % e,
                           "[[%s], []]" % e, "float(%s)" % e])

    # -- atoms ------------------------------------------------------------------
    def int_names(self, cx):
        """global int-valued names readable by bare name in this space (and in every sub space)"""
        out = [n for n, k in cx.sp.vis_refs().items() if k == "int"]
        out += [n for n, k in self.model_refs.items() if k == "int" and n not in cx.sp.vis_refs()
                and n not in cx.sp.vis_cells()]
        out += cx.sp.all_params() + cx.sp.formula_refs
        return [n for n in out if n not in cx.hidden and n not in cx.scope_vars and n not in cx.params
                and n not in cx.locals]

    def int_paths(self, cx):
        sp = cx.sp
        out = []
        for n, k in sp.vis_refs().items():
            if k == "int":
                out.append("_space." + n)
                if not sp.in_param_tree():
                    out.append("_model.%s.%s" % (sp.path, n))
        for n, k in self.model_refs.items():
            if k == "int":
                out.append("_model." + n)
        if sp.parent is not None and not sp.in_param_tree():
            for n, k in sp.parent.vis_refs().items():
                if k == "int":
                    out.append("_space._parent." + n)
        for cn, ch in sp.children.items():
            if ch.params is None:
                for n, k in ch.vis_refs().items():
                    if k == "int":
                        out.append("%s.%s" % (cn, n))
            elif all(isinstance(d, int) or d is None for _, d in ch.params):
                # a parameter of an instance read as its attribute: Ch[p].n (and Ch[p].p when the names coincide)
                for t in self.item_texts(cn, ch, cx):
                    out.append("%s.%s" % (t, ch.params[0][0]))
                pn = ch.params[0][0]
                if pn in sp.all_params() and pn not in cx.hidden and pn not in cx.scope_vars \
                        and (len(ch.params) == 1 or ch.params[1][1] is not None):
                    # the same name as a global inside the object expression and as the attribute read from it
                    out.append("%s[%s].%s" % (cn, pn, pn))
                    out.append("%s(%s + 1).%s" % (cn, pn, pn))
        for n, k in sp.vis_refs().items():
            if k.startswith("space:"):
                t = self.get(k[6:])
                for rn, rk in t.vis_refs().items():
                    if rk == "int":
                        out.append("%s.%s" % (n, rn))
            elif k == "self":
                for rn, rk in sp.vis_refs().items():
                    if rk == "int":
                        out.append("me." + rn)
        return out

    def get(self, path):
        parts = path.split(".")
        s = self.tops[parts[0]]
        for p in parts[1:]:
            s = s.children[p]
        return s

    def seq_atoms(self, cx):
        out = []
        refs = dict(self.model_refs)
        refs.update(cx.sp.vis_refs())
        for n, k in refs.items():
            if n in cx.hidden or n in cx.scope_vars:
                continue
            if k in ("tuple", "list"):
                out += ["%s[0]" % n, "%s[-1]" % n, "sum(%s[:2])" % n if "sum" not in self.shadowed else "%s[1]" % n,
                        "%s[x %% 2]" % n if "x" in cx.params else "%s[1]" % n]
            elif k == "dict":
                out += ["%s['a']" % n, "%s.get('b', 0)" % n]
            elif k == "str":
                out += ["%s.count('a')" % n, "ord(%s[0])" % n]
            elif k == "float":
                out += ["int(%s * 4)" % n]
            elif k == "bool":
                out += ["int(%s)" % n, "(1 if %s else 2)" % n]
            elif k == "none":
                out += ["(0 if %s is None else 1)" % n]
            elif k == "inf":
                out += ["int(%s > 5)" % n]
            elif k == "module":
                out += ["%s.floor(2.5)" % n, "int(%s.sqrt(16))" % n]
        return out

    def atom(self, cx):
        rnd = self.rnd
        c = rnd.random()
        loc = cx.params + cx.locals + cx.scope_vars
        if c < 0.3 and loc:
            return rnd.choice(loc)
        if c < 0.55:
            names = self.int_names(cx)
            if names:
                cx.tags.add("ref-by-name")
                return rnd.choice(names)
        if c < 0.7:
            ps = self.int_paths(cx)
            if ps:
                cx.tags.add("ref-by-path")
                return rnd.choice(ps)
        if c < 0.82:
            sq = self.seq_atoms(cx)
            if sq:
                cx.tags.add("pickled-or-typed-ref")
                return rnd.choice(sq)
        return str(rnd.randint(0, 5))

    def arg(self, cx):
        """an argument expression with values in {0..3}"""
        rnd = self.rnd
        c = ["0", "1", "2"]
        if "x" in cx.params:
            c += ["x", "x", "(x - 1 if x > 0 else 0)", "x % 2", "(x + 1) % 4"]
        if "y" in cx.params:
            c += ["y % 3"]
        for v in cx.scope_vars:
            c += ["%s %% 4" % v]
        return rnd.choice(c)

    # -- calls ------------------------------------------------------------------
    def callables(self, cx):
        """[(text before '(', cells name)] of cells of lower rank reachable from this space"""
        sp = cx.sp
        out = []
        ok = lambda n: RANK[n] < cx.rank and n not in NOT_CALLABLE     # noqa
        for n in sp.vis_cells():
            if ok(n) and n not in cx.hidden and n not in cx.scope_vars:
                out.append((n, n))
                out.append((n, n))
                out.append(("_space." + n, n))
                if not sp.in_param_tree():
                    out.append(("_model.%s.%s" % (sp.path, n), n))
        for cn, ch in sp.children.items():
            pre = [cn] if ch.params is None else self.item_texts(cn, ch, cx)
            for n in ch.vis_cells():
                if ok(n):
                    for p in pre:
                        out.append((p + "." + n, n))
            if ch.params is None:
                for gn, gc in ch.children.items():
                    pre2 = [cn + "." + gn] if gc.params is None else self.item_texts(cn + "." + gn, gc, cx)
                    for n in gc.vis_cells():
                        if ok(n):
                            for p in pre2:
                                out.append((p + "." + n, n))
        for rn, k in sp.vis_refs().items():
            if rn in cx.hidden:
                continue
            if k.startswith("space:"):
                t = self.get(k[6:])
                for n in t.vis_cells():
                    if ok(n):
                        out.append((rn + "." + n, n))
            elif k.startswith("cell:"):
                if ok(k[5:]):
                    out.append((rn, k[5:]))
                    out.append((rn, k[5:]))
            elif k.startswith("pspace:"):
                t = self.get(k[7:])
                for n in t.vis_cells():
                    if ok(n):
                        for p in self.item_texts(rn, t, cx):
                            out.append((p + "." + n, n))
            elif k == "self":
                for n in sp.vis_cells():
                    if ok(n):
                        out.append(("me." + n, n))
        # other complete top-level spaces by absolute path
        for tn, t in self.tops.items():
            if t is sp or not t.cells or t in sp.ancestors():
                continue
            if t.params is None:
                for n in t.vis_cells():
                    if ok(n) and self.rnd.random() < 0.3:
                        out.append(("_model.%s.%s" % (tn, n), n))
            else:
                for n in t.vis_cells():
                    if ok(n) and self.rnd.random() < 0.3:
                        for p in self.item_texts("_model." + tn, t, cx):
                            out.append((p + "." + n, n))
        return out

    def item_texts(self, prefix, sp, cx):
        """spellings that create / fetch an ItemSpace of parametrised space `sp` from a formula"""
        rnd = self.rnd
        a = self.arg(cx)
        ps = sp.params
        # a keyword named like a name the formula may read as a global is a known trigger (kwglobal)
        kw_ok = lambda n: self.on["kwglobal"] or n not in cx.sp.all_params()     # noqa
        out = []
        if len(ps) == 1:
            out = ["%s(%s)" % (prefix, a), "%s[%s]" % (prefix, a)]
            if kw_ok(ps[0][0]):
                out.append("%s(%s=%s)" % (prefix, ps[0][0], a))
        else:
            b = rnd.choice(["1", "2", "3"])
            out = ["%s(%s, %s)" % (prefix, a, b), "%s[%s, %s]" % (prefix, a, b)]
            if kw_ok(ps[1][0]):
                out.append("%s(%s, %s=%s)" % (prefix, a, ps[1][0], b))
            if ps[1][1] is not None:
                out += ["%s(%s)" % (prefix, a), "%s[%s]" % (prefix, a)]
        return [rnd.choice(out)]

    def call(self, cx, argtext=None):
        rnd = self.rnd
        cs = self.callables(cx)
        if not cs:
            return self.atom(cx)
        pre, n = rnd.choice(cs)
        ptxt, pn = self.sig[n]
        if pre != n:
            cx.tags.add("call-by-path" if pre.startswith(("_space", "_model", "me.")) else "call-into-other-space")
        if "(" in pre or "[" in pre:
            cx.tags.add("itemspace-from-formula")
        if pre in ("o2",):
            cx.tags.add("cells-valued-ref")
        if n in BUILTIN_CELLS:
            cx.tags.add("cells-named-like-builtin")
        a = argtext or self.arg(cx)
        if not pn:
            return "%s()" % pre
        if len(pn) == 1:
            form = rnd.random()
            if form < 0.7:
                return "%s(%s)" % (pre, a)
            if form < 0.85:
                cx.tags.add("keyword-call")
                return "%s(%s=%s)" % (pre, pn[0], a)
            if form < 0.93:
                cx.tags.add("star-call")
                return "%s(*[%s])" % (pre, a)
            cx.tags.add("star-call")
            return "%s(**{'%s': %s})" % (pre, pn[0], a)
        b = rnd.choice(["0", "1", "2"])
        form = rnd.random()
        if form < 0.35:
            return "%s(%s)" % (pre, a)
        if form < 0.6:
            return "%s(%s, %s)" % (pre, a, b)
        cx.tags.add("keyword-call")
        if form < 0.75:
            return "%s(%s, %s=%s)" % (pre, a, pn[1], b)
        if form < 0.87:
            # keyword named like the value passed (k=k where k is a global of the space)
            names = self.int_names(cx) if self.on["kwglobal"] else []
            if pn[1] in names:
                cx.tags.add("keyword-same-as-global")
                return "%s(%s, %s=%s %% 3)" % (pre, a, pn[1], pn[1])
            return "%s(%s=%s, %s=%s)" % (pre, pn[1], b, pn[0], a)
        return "%s(%s=%s)" % (pre, pn[0], a)

    def rec(self, cx):
        ptxt, pn = self.sig[cx.name]
        if not pn or "x" not in cx.params or cx.name in cx.hidden:
            return self.atom(cx)
        cx.tags.add("self-recursion")
        if len(pn) == 1:
            return "(%s(x - 1) if x > 0 else 0)" % cx.name
        return "(%s(x - 1, %s) if x > 0 else 0)" % (cx.name, pn[1])

    def gl(self, cx):
        """a term that certainly reads something global (reference or cells)"""
        rnd = self.rnd
        if rnd.random() < 0.45:
            return self.call(cx)
        names = self.int_names(cx)
        if names and rnd.random() < 0.7:
            cx.tags.add("ref-by-name")
            return rnd.choice(names)
        return self.atom(cx)

    def builtin(self, name):
        return name not in self.shadowed

    def bsum(self, inner):
        """sum(<iterable text>) or an equivalent when `sum` is shadowed in this model"""
        if self.builtin("sum"):
            return "sum(%s)" % inner
        return "list(%s)[-1]" % inner      # any int-valued aggregate will do

    @staticmethod
    def P(e):
        """parenthesise unless the text is a plain name / attribute path / literal (a parenthesised bare name
        is a form of its own: f_paren_name)"""
        import re
        return e if re.fullmatch(r"[\w.]+", e) else "(%s)" % e

    def f_paren_name(self, cx, d):
        names = self.int_names(cx)
        if not names:
            return self.atom(cx)
        cx.tags.add("parenthesised-name")
        cx.tags.add("ref-by-name")
        return "(%s) + %s" % (self.rnd.choice(names), self.atom(cx))

    # -- terms ------------------------------------------------------------------
    def term(self, cx, d):
        rnd = self.rnd
        if d <= 0:
            c = rnd.random()
            if c < 0.45:
                return self.call(cx)
            if c < 0.55:
                return self.rec(cx)
            return self.atom(cx)
        forms = [
            (8, self.f_arith), (4, self.f_cond), (5, self.f_listcomp), (4, self.f_genexp), (2, self.f_setcomp),
            (2, self.f_dictcomp), (3, self.f_nested_comp), (2, self.f_comp_if), (2, self.f_comp_iter),
            (5, self.f_lambda), (2, self.f_walrus), (2, self.f_fstring), (2, self.f_boolop), (2, self.f_builtin),
            (2, self.f_sorted), (2, self.f_comp_in_lambda), (2, self.f_lambda_in_comp), (2, self.f_dictlit),
            (1, self.f_star), (3, self.f_localfunc), (3, self.f_call_nested_arg),
            (2 * self.on["comp_target"], self.f_comp_target_shadow), (2, self.f_lambda_param_shadow),
            (2, self.f_mutable), (2 * self.on["paren"], self.f_paren_name), (2, self.f_list_arg), (1 * self.on["dunder"], self.f_dunder),
        ]
        tot = sum(w for w, _ in forms)
        c = rnd.random() * tot
        for w, f in forms:
            c -= w
            if c <= 0:
                return f(cx, d - 1)
        return self.atom(cx)

    def sub(self, cx, d):
        return self.term(cx, d if self.rnd.random() < 0.5 else 0)

    def f_arith(self, cx, d):
        a, b = self.sub(cx, d), self.sub(cx, d)
        a, b = self.P(a), self.P(b)
        return self.rnd.choice(["%s + %s", "%s * 2 - %s", "%s %% 7 + %s", "%s - %s", "-%s + %s",
                                "(%s + %s) // 2", "%s ** 2 %% 11 + %s"]) % (a, b)

    def f_cond(self, cx, d):
        a, b = self.sub(cx, d), self.sub(cx, d)
        p = self.rnd.choice(cx.params + cx.scope_vars + ["1"])
        cx.tags.add("conditional")
        return "(%s if %s > 1 else %s)" % (a, p, b)

    def with_var(self, cx, var, fn):
        cx.scope_vars.append(var)
        try:
            return fn()
        finally:
            cx.scope_vars.remove(var)

    def f_listcomp(self, cx, d):
        i = cx.fresh("i")
        cx.tags.add("listcomp")
        e = self.with_var(cx, i, lambda: self.sub_g(cx, d))
        return self.bsum("[%s for %s in range(%d)]" % (e, i, self.rnd.randint(1, 3)))

    def sub_g(self, cx, d):
        """a sub-term that reads something global with high probability"""
        if self.rnd.random() < 0.6:
            return "%s + %s" % (self.gl(cx), self.sub(cx, d))
        return self.sub(cx, d)

    def f_genexp(self, cx, d):
        i = cx.fresh("i")
        cx.tags.add("genexp")
        e = self.with_var(cx, i, lambda: self.sub_g(cx, d))
        return self.bsum("%s for %s in range(%d)" % (e, i, self.rnd.randint(1, 3)))

    def f_setcomp(self, cx, d):
        i = cx.fresh("i")
        cx.tags.add("setcomp")
        e = self.with_var(cx, i, lambda: self.sub_g(cx, d))
        return self.bsum("{%s for %s in range(3)}" % (e, i))

    def f_dictcomp(self, cx, d):
        i = cx.fresh("i")
        cx.tags.add("dictcomp")
        e = self.with_var(cx, i, lambda: self.sub_g(cx, d))
        return self.bsum("{%s: %s for %s in range(2)}.values()" % (i, e, i))

    def f_nested_comp(self, cx, d):
        i, j = cx.fresh("i"), cx.fresh("j")
        cx.tags.add("nested-comp")
        g = self.gl(cx)
        c = self.rnd.random()
        if c < 0.35:
            return self.bsum("[%s * %s + %s for %s in range(2) for %s in range(%s + 1)]" % (i, j, g, i, j, i))
        cx.scope_vars += [i, j]
        try:
            e = self.sub_g(cx, d)
        finally:
            cx.scope_vars.remove(i)
            cx.scope_vars.remove(j)
        if c < 0.7:
            return self.bsum("[%s for %s in range(2)]" % (self.bsum("[%s for %s in range(2)]" % (e, j)), i))
        if self.builtin("sum"):
            return "sum([sum(%s for %s in range(2)) for %s in range(2)])" % (e, j, i)
        return self.bsum("[%s for %s in range(2) for %s in range(2)]" % (e, i, j))

    def f_comp_if(self, cx, d):
        i = cx.fresh("i")
        cx.tags.add("comp-condition")
        return self.bsum("[%s for %s in range(4) if %s < %s]" % (i, i, i, self.gl(cx)))

    def f_comp_iter(self, cx, d):
        i = cx.fresh("i")
        cx.tags.add("comp-iterable-global")
        g = self.gl(cx)
        e = self.with_var(cx, i, lambda: self.sub(cx, d))
        return self.bsum("[%s + %s for %s in range(%s %% 3 + 1)]" % (i, self.P(e), i, self.P(g)))

    def f_comp_target_shadow(self, cx, d):
        names = [n for n in self.int_names(cx) if n not in cx.sp.all_params()]
        if not names:
            return self.f_listcomp(cx, d)
        r = self.rnd.choice(names)
        cx.tags.add("comp-target-named-like-global")
        return self.bsum("[%s + 1 for %s in range(3)]" % (r, r))

    def f_lambda(self, cx, d):
        rnd = self.rnd
        z = cx.fresh("z")
        cx.tags.add("lambda")
        c = rnd.random()
        a = self.sub(cx, d)
        if c < 0.4:
            body = self.with_var(cx, z, lambda: self.sub_g(cx, d))
            return "(lambda %s: %s + %s)(%s)" % (z, z, body, a)
        if c < 0.6:
            cx.tags.add("lambda-default-global")
            return "(lambda %s=%s: %s + 1)()" % (z, self.gl(cx), z)
        if c < 0.75:
            return "(lambda: %s)()" % self.gl(cx)
        if c < 0.88:
            p = rnd.choice(cx.params + ["2"])
            return "(lambda %s, k_=%s: %s + k_ + %s)(%s)" % (z, p, z, self.gl(cx), a)
        return "(lambda *a_: a_[0] + %s)(%s, 1)" % (self.gl(cx), a)

    def f_lambda_param_shadow(self, cx, d):
        names = [n for n in self.int_names(cx) if n not in cx.sp.all_params()]
        if not names:
            return self.f_lambda(cx, d)
        r = self.rnd.choice(names)
        cx.tags.add("lambda-param-named-like-global")
        g = self.gl(cx)
        return "((lambda %s: %s * 2)(%s) + %s)" % (r, r, self.sub(cx, d), g)

    def f_walrus(self, cx, d):
        if cx.scope_vars:
            return self.sub_g(cx, d)
        w = cx.fresh("w")
        cx.tags.add("walrus")
        if self.rnd.random() < 0.5:
            return "((%s := %s) + %s)" % (w, self.sub_g(cx, d), w)
        i = cx.fresh("i")
        cx.tags.add("walrus-in-comp")
        return "(%s + %s)" % (self.bsum("[(%s := %s + %s) for %s in range(2)]" % (w, i, self.gl(cx), i)), w)

    def f_fstring(self, cx, d):
        cx.tags.add("fstring")
        names = self.int_names(cx) or cx.params or ["1"]
        n = self.rnd.choice(names)
        if self.rnd.random() < 0.5:
            return 'int(f"{%s}{%s}")' % (self.rnd.randint(1, 3), n)
        return "int(f'{%s:03d}')" % n

    def f_boolop(self, cx, d):
        a, b = self.sub(cx, d), self.gl(cx)
        cx.tags.add("boolop")
        a, b = self.P(a), self.P(b)
        return self.rnd.choice(["int(0 <= %s < %s)", "(%s and %s)", "(%s or %s)", "(int(not %s) + %s)",
                                "int(%s is not None and %s in (1, 2, 3))"]) % (a, b)

    def f_builtin(self, cx, d):
        rnd = self.rnd
        a, b = self.sub(cx, d), self.gl(cx)
        cands = []
        for n in ("max", "min"):
            if self.builtin(n):
                cands.append("%s(%s, %s)" % (n, a, b))
        if self.builtin("abs"):
            cands.append("abs(%s - %s)" % (a, b))
        if self.builtin("len"):
            cands.append("len([%s, %s])" % (a, b))
        cands.append("divmod(%s, 3)[1] + %s" % (a, self.P(b)))
        cx.tags.add("builtin-call")
        return rnd.choice(cands)

    def f_sorted(self, cx, d):
        cx.tags.add("sorted")
        if not self.builtin("sorted"):
            return self.f_arith(cx, d)
        return "sorted([%s, %s, %s])[%d]" % (self.sub(cx, d), self.gl(cx), self.atom(cx), self.rnd.randint(0, 2))

    def f_comp_in_lambda(self, cx, d):
        z, i = cx.fresh("z"), cx.fresh("i")
        cx.tags.add("comp-in-lambda")
        return "(lambda %s: %s)(%s)" % (z, self.bsum("[%s + %s + %s for %s in range(2)]" % (z, i, self.gl(cx), i)),
                                        self.sub(cx, d))

    def f_lambda_in_comp(self, cx, d):
        z, i = cx.fresh("z"), cx.fresh("i")
        cx.tags.add("lambda-in-comp")
        return self.bsum("[(lambda %s: %s + %s)(%s) for %s in range(2)]" % (z, z, self.gl(cx), i, i))

    def f_dictlit(self, cx, d):
        cx.tags.add("dict-literal")
        p = self.rnd.choice(cx.params + cx.scope_vars + ["1"])
        return "{0: %s, 1: %s}[%s %% 2]" % (self.sub(cx, d), self.gl(cx), p)

    def f_star(self, cx, d):
        cx.tags.add("star-expr")
        return self.bsum("[*(%s, %s), %s]" % (self.atom(cx), self.gl(cx), self.sub(cx, d)))

    def f_localfunc(self, cx, d):
        if not cx.lfuncs or cx.scope_vars:
            return self.sub_g(cx, d)
        f = self.rnd.choice(cx.lfuncs)
        cx.tags.add("call-local-function")
        c = self.rnd.random()
        if c < 0.5:
            return "%s(%s)" % (f, self.sub_g(cx, d))
        i = cx.fresh("i")
        cx.tags.add("listcomp")
        if c < 0.8:
            return self.bsum("[%s(%s) for %s in range(%d)]" % (
                f, self.with_var(cx, i, lambda: self.gl(cx)), i, self.rnd.randint(1, 3)))
        cx.tags.add("dictcomp")
        return self.bsum("{%s: %s(%s) * %s for %s in range(2)}.values()" % (
            i, f, self.with_var(cx, i, lambda: self.call(cx, i + " % 3")), self.gl(cx), i))

    def f_call_nested_arg(self, cx, d):
        cx.tags.add("call-with-call-argument")
        inner = self.call(cx)
        return self.call(cx, "%s %% 3" % self.P(inner))

    def f_list_arg(self, cx, d):
        """an uncached cells takes any argument, hashable or not"""
        if "ul" not in cx.sp.vis_cells() or RANK["ul"] >= cx.rank:
            return self.sub_g(cx, d)
        cx.tags.add("unhashable-argument-to-uncached-cells")
        return "ul([%s, %s])" % (self.sub(cx, d), self.atom(cx))

    def f_dunder(self, cx, d):
        cx.tags.add("dunder-builtin")
        return "__import__('math').floor(%s / 2)" % self.P(self.sub_g(cx, d))

    def f_mutable(self, cx, d):
        """call the mutable-return helper, mutate what it returned, call it again: the second result
        is the mutated object iff the helper holds its values"""
        if "mu" not in cx.sp.vis_cells() or RANK["mu"] >= cx.rank or cx.lam or cx.scope_vars:
            return self.sub_g(cx, d)
        cx.tags.add("mutates-returned-list")
        a = self.arg(cx)
        # (the element is put back at once: what the helper holds must not depend on how often and in which
        # order the harness happened to evaluate the callers - thorough seed 3 showed the difference)
        return "(mu(%s).append(7) or len(mu(%s)) + (mu(%s).pop() is None))" % (a, a, a) if self.builtin("len") else \
            "(mu(%s).append(7) or mu(%s).count(7) + (mu(%s).pop() is None))" % (a, a, a)

    # -- statements -----------------------------------------------------------------
    def stmt_hide_global(self, cx):
        """assignment that makes a name that is global elsewhere a local of this function"""
        rnd = self.rnd
        names = [n for n in self.int_names(cx) if n not in cx.sp.all_params()]
        if not names:
            return None
        r = rnd.choice(names)
        cx.hidden.add(r)
        e = self.term(cx, 1)
        cx.locals.append(r)
        c = rnd.random()
        if c < 0.6:
            code = "%s = %s" % (r, e)
        elif c < 0.8:
            code = "for %s in range(2):\n    pass\n%s += %s" % (r, r, e)
        else:
            code = "%s: int = %s" % (r, e)
        paths = [p for p in self.int_paths(cx) if p.endswith("." + r)]
        t = cx.fresh("t")
        if paths:
            code += "\n%s = %s + %s" % (t, r, rnd.choice(paths))
        else:
            code += "\n%s = %s" % (t, r)
        return {"code": code, "t": t, "tags": ["local-named-like-global"] + self._take(cx)}

    def _take(self, cx):
        t = sorted(cx.tags)
        cx.tags = set()
        return t

    def stmt(self, cx):
        rnd = self.rnd
        forms = [
            (10, self.s_assign), (3, self.s_shadow_builtin), (6, self.s_nested_def), (5, self.s_lambda_local),
            (3, self.s_try), (2, self.s_class), (4, self.s_for), (2, self.s_import), (2, self.s_unpack),
            (2, self.s_early_return), (1, self.s_match), (2, self.s_generator), (2, self.s_nonlocal),
            (1, self.s_while), (1, self.s_with), (1, self.s_if_walrus), (1, self.s_comment),
            (2 * self.rk["class_method"], self.s_class_method_global), (2 * self.rk["class_attr"], self.s_class_attr_global), (2, self.s_inner_local_shadow),
            (1, self.s_zd),
        ]
        tot = sum(w for w, _ in forms)
        c = rnd.random() * tot
        for w, f in forms:
            c -= w
            if c <= 0:
                b = f(cx)
                if b:
                    b["tags"] = sorted(set(b.get("tags", [])) | set(self._take(cx)))
                return b
        return self.s_assign(cx)

    def s_assign(self, cx):
        t = cx.fresh("t")
        e = self.term(cx, self.f["depth"])
        cx.locals.append(t)
        c = self.rnd.random()
        if c < 0.85:
            return {"code": "%s = %s" % (t, e), "t": t, "tags": []}
        if c < 0.93:
            return {"code": "%s: int = %s" % (t, e), "t": t, "tags": ["annotated-assign"]}
        return {"code": "%s = 1\n%s += %s" % (t, t, e), "t": t, "tags": ["augmented-assign"]}

    def s_shadow_builtin(self, cx):
        n = self.rnd.choice(SHADOW_LOCALS)
        if n in cx.locals:
            return self.s_assign(cx)
        e = self.term(cx, 1)
        cx.locals.append(n)
        return {"code": "%s = %s" % (n, e), "t": n, "tags": ["local-shadows-builtin"]}

    def s_nested_def(self, cx):
        rnd = self.rnd
        f, z, t = cx.fresh("inner"), cx.fresh("z"), cx.fresh("t")
        c = rnd.random()
        tags = ["nested-def"]
        if c < 0.45:
            body = self.with_var(cx, z, lambda: self.term(cx, 1))
            code = "def %s(%s):\n    return %s + %s + %s" % (f, z, z, self.gl(cx), body)
        elif c < 0.65:
            tags.append("nested-def-default-global")
            code = "def %s(%s, q_=%s):\n    return %s + q_" % (f, z, self.gl(cx), z)
        elif c < 0.8:
            u = cx.fresh("u")
            body = self.with_var(cx, z, lambda: self.term(cx, 1))
            code = "def %s(%s):\n    %s = %s\n    return %s + %s" % (f, z, u, body, u, self.gl(cx))
        elif c < 0.9:
            tags.append("nested-def-recursive")
            code = "def %s(%s):\n    return %s if %s <= 0 else %s(%s - 1) + %s" % (f, z, self.gl(cx), z, f, z, self.gl(cx))
        else:
            tags.append("nested-def-two-levels")
            g2 = cx.fresh("deep")
            code = ("def %s(%s):\n    def %s(v_):\n        return v_ + %s + %s\n    return %s(%s) + %s"
                    % (f, z, g2, z, self.gl(cx), g2, z, self.gl(cx)))
        a = self.arg(cx) if "recursive" in tags[-1] else self.term(cx, 1)
        code += "\n%s = %s(%s)" % (t, f, a)
        cx.locals.append(t)
        if "recursive" not in tags[-1]:
            cx.lfuncs.append(f)
        return {"code": code, "t": t, "tags": tags}

    def s_inner_local_shadow(self, cx):
        """outer function reads a global name, nested function has a local / parameter of that name"""
        names = [n for n in self.int_names(cx) if n not in cx.sp.all_params()]
        if not names:
            return self.s_nested_def(cx)
        r = self.rnd.choice(names)
        f, t = cx.fresh("inner"), cx.fresh("t")
        cx.tags.add("ref-by-name")
        if self.rnd.random() < 0.5:
            code = "def %s(z_):\n    %s = z_ + 1\n    return %s * 2\n%s = %s(%s) + %s" % (f, r, r, t, f, self.term(cx, 1), r)
            tag = "nested-local-named-like-global"
        else:
            if self.on["kwglobal"]:
                code = "def %s(%s):\n    return %s * 3\n%s = %s(%s) + %s(%s=1) + %s" % (
                    f, r, r, t, f, self.term(cx, 1), f, r, r)
                cx.tags.add("keyword-same-as-global")
            else:
                code = "def %s(%s):\n    return %s * 3\n%s = %s(%s) + %s(1) + %s" % (f, r, r, t, f, self.term(cx, 1), f, r)
            tag = "nested-param-named-like-global"
        cx.locals.append(t)
        return {"code": code, "t": t, "tags": ["nested-def", tag]}

    def s_lambda_local(self, cx):
        f, t = cx.fresh("fn"), cx.fresh("t")
        c = self.rnd.random()
        if c < 0.5:
            code = "%s = lambda v_: v_ * 2 + %s" % (f, self.gl(cx))
        elif c < 0.75:
            code = "%s = lambda v_: v_ + 1" % f
        else:
            code = "%s = lambda v_, d_=%s: v_ + d_" % (f, self.gl(cx))
        cx.lfuncs.append(f)
        e = self.f_localfunc(cx, 1)
        code += "\n%s = %s" % (t, e)
        cx.locals.append(t)
        return {"code": code, "t": t, "tags": ["lambda", "lambda-local"]}

    def s_try(self, cx):
        t = cx.fresh("t")
        p = "x" if "x" in cx.params else "1"
        c = self.rnd.random()
        a, b = self.term(cx, 1), self.term(cx, 1)
        if c < 0.4:
            code = "try:\n    %s = 6 // (%s - 1) + %s\nexcept ZeroDivisionError:\n    %s = %s" % (t, p, a, t, b)
        elif c < 0.7:
            if not self.rk["try_else"]:
                b = self.atom(cx)       # nested scopes in both the handler and the else block: known trigger
            else:
                cx.tags.add("try-scopes-in-handler-and-else")
            code = ("try:\n    %s = 6 // (%s - 1)\nexcept ZeroDivisionError as e_:\n    %s = %s\nelse:\n    %s += %s\n"
                    "finally:\n    pass" % (t, p, t, a, t, b))
        else:
            code = "try:\n    %s = [%s][%s]\nexcept (IndexError, KeyError):\n    %s = %s" % (t, a, p, t, b)
        cx.locals.append(t)
        return {"code": code, "t": t, "tags": ["try-except"]}

    def s_zd(self, cx):
        """a callee that raises at one argument, handled in the caller"""
        if "zd" not in cx.sp.vis_cells() or RANK["zd"] >= cx.rank:
            return self.s_try(cx)
        t = cx.fresh("t")
        code = "try:\n    %s = zd(%s)\nexcept ZeroDivisionError:\n    %s = %s" % (t, self.arg(cx), t, self.gl(cx))
        cx.locals.append(t)
        return {"code": code, "t": t, "tags": ["try-except", "handled-callee-failure"]}

    def s_class(self, cx):
        t, k = cx.fresh("t"), cx.fresh("K")
        code = ("class %s:\n    w_ = %s\n    def m(self, z_):\n        return z_ + 1\n%s = %s.w_ + %s().m(%s)"
                % (k, self.gl(cx), t, k, k, self.term(cx, 1)))
        cx.locals.append(t)
        return {"code": code, "t": t, "tags": ["class-body"]}

    def s_class_attr_global(self, cx):
        import builtins
        # not a name that is also a builtin: the package would then read the builtin instead of raising
        # NameError, which is not what the listed finding describes
        names = [n for n in self.int_names(cx) if n not in cx.sp.all_params() and not hasattr(builtins, n)]
        if not names:
            return self.s_class(cx)
        r = self.rnd.choice(names)
        t, k = cx.fresh("t"), cx.fresh("K")
        code = "class %s:\n    %s = %s\n%s = %s.%s + 1" % (k, r, r, t, k, r)
        cx.locals.append(t)
        return {"code": code, "t": t, "tags": ["class-attribute-named-like-global"]}

    def s_class_method_global(self, cx):
        t, k = cx.fresh("t"), cx.fresh("K")
        code = ("class %s:\n    def m(self, z_):\n        return z_ + %s\n%s = %s().m(%s)"
                % (k, self.gl(cx), t, k, self.atom(cx)))
        cx.locals.append(t)
        return {"code": code, "t": t, "tags": ["class-method-reads-global"]}

    def s_for(self, cx):
        t, i = cx.fresh("t"), cx.fresh("i")
        e = self.with_var(cx, i, lambda: self.term(cx, 1))
        c = self.rnd.random()
        if c < 0.6:
            code = "%s = 0\nfor %s in range(%d):\n    %s += %s" % (t, i, self.rnd.randint(1, 3), t, e)
        elif c < 0.8:
            code = "%s = 0\nfor %s in range(3):\n    if %s > 1:\n        break\n    %s += %s\nelse:\n    %s += 1" % (
                t, i, i, t, e, t)
        else:
            j = cx.fresh("j")
            code = "%s = 0\nfor %s, %s in enumerate([%s, %s]):\n    %s += %s * %s" % (
                t, i, j, self.gl(cx), self.atom(cx), t, i, j)
        cx.locals.append(t)
        return {"code": code, "t": t, "tags": ["for-loop"]}

    def s_while(self, cx):
        t, i = cx.fresh("t"), cx.fresh("n")
        code = "%s = 0\n%s = 2\nwhile %s > 0:\n    %s += %s\n    %s -= 1" % (t, i, i, t, self.term(cx, 1), i)
        cx.locals.append(t)
        return {"code": code, "t": t, "tags": ["while-loop"]}

    def s_with(self, cx):
        t = cx.fresh("t")
        code = ("import contextlib\nwith contextlib.nullcontext(%s) as cm_:\n    %s = cm_ + %s"
                % (self.gl(cx), t, self.term(cx, 1)))
        cx.locals.append(t)
        return {"code": code, "t": t, "tags": ["with", "import-in-formula"]}

    def s_import(self, cx):
        t = cx.fresh("t")
        e = self.term(cx, 1)
        c = self.rnd.random()
        if c < 0.3:
            code = "import math\n%s = math.floor(%s / 2)" % (t, self.P(e))
        elif c < 0.55:
            code = "from math import floor as fl_\n%s = fl_(%s / 2)" % (t, self.P(e))
        elif c < 0.8:
            code = "import math as mm_\n%s = mm_.floor(%s / 2)" % (t, self.P(e))
        else:
            code = "import os.path\n%s = int(os.path.basename('a/3')) + %s" % (t, e)
        cx.locals.append(t)
        return {"code": code, "t": t, "tags": ["import-in-formula"]}

    def s_unpack(self, cx):
        t, a, b = cx.fresh("t"), cx.fresh("a"), cx.fresh("b")
        if self.rnd.random() < 0.5:
            code = "%s, %s = %s, %s\n%s = %s * 2 + %s" % (a, b, self.term(cx, 1), self.gl(cx), t, a, b)
        else:
            code = "%s, *%s = [%s, %s, 2]\n%s = %s + %s[0]" % (a, b, self.gl(cx), self.term(cx, 1), t, a, b)
        cx.locals.append(t)
        return {"code": code, "t": t, "tags": ["unpacking"]}

    def s_early_return(self, cx):
        if "x" not in cx.params or cx.name in LEAVES:
            return self.s_assign(cx)
        return {"code": "if x > 2:\n    return %s" % self.term(cx, 1), "t": None, "tags": ["early-return"]}

    def s_match(self, cx):
        t = cx.fresh("t")
        p = "x" if "x" in cx.params else "1"
        code = ("match (%s, %s):\n    case (0, b_):\n        %s = b_ + %s\n    case (a_, _):\n        %s = a_ + %s"
                % (p, self.gl(cx), t, self.gl(cx), t, self.term(cx, 1)))
        cx.locals.append(t)
        return {"code": code, "t": t, "tags": ["match"]}

    def s_generator(self, cx):
        t, f, i = cx.fresh("t"), cx.fresh("gen"), cx.fresh("i")
        e = self.with_var(cx, i, lambda: self.gl(cx))
        code = "def %s():\n    for %s in range(2):\n        yield %s + %s\n%s = %s" % (
            f, i, i, e, t, self.bsum("%s()" % f))
        cx.locals.append(t)
        return {"code": code, "t": t, "tags": ["nested-generator"]}

    def s_nonlocal(self, cx):
        t, f, c = cx.fresh("t"), cx.fresh("bump"), cx.fresh("cnt")
        code = ("%s = 0\ndef %s(z_):\n    nonlocal %s\n    %s += z_ + %s\n    return %s\n%s(1)\n%s = %s(%s)"
                % (c, f, c, c, self.gl(cx), c, f, t, f, self.term(cx, 1)))
        cx.locals.append(t)
        return {"code": code, "t": t, "tags": ["nested-def", "nonlocal"]}

    def s_if_walrus(self, cx):
        t, w = cx.fresh("t"), cx.fresh("w")
        code = "if (%s := %s) > 2:\n    %s = %s\nelse:\n    %s = %s + %s" % (w, self.term(cx, 1), t, w, t, w, self.gl(cx))
        cx.locals.append(t)
        return {"code": code, "t": t, "tags": ["walrus"]}

    def s_comment(self, cx):
        t = cx.fresh("t")
        code = "# reads r and k\n%s = (%s +   # trailing comment\n    %s)" % (t, self.term(cx, 1), self.gl(cx))
        cx.locals.append(t)
        return {"code": code, "t": t, "tags": ["comments-multiline"]}


# ---------------------------------------------------------------------- building a live model
def build_model(mx, ops, name="M"):
    """apply build ops through the public API; any exception propagates (the case is then not a model
    of the subset).  returns the model."""
    m = mx.new_model(name)

    def get(path):
        o = m
        if path:
            for p in path.split("."):
                o = getattr(o, p) if o is m else o.spaces[p]
        return o

    for op in ops:
        k = op["op"]
        if k == "nop":
            continue
        if k == "space":
            kw = {}
            if op.get("bases"):
                kw["bases"] = [get(b) for b in op["bases"]]
            if op.get("formula"):
                kw["formula"] = op["formula"]
            get(op["parent"]).new_space(op["name"], **kw)
        elif k == "ref":
            v = op["value"]
            owner = get(op["space"])
            if "space" in v:
                val = get(v["space"])
            elif "cell" in v:
                sp, cn = v["cell"].rsplit(".", 1)
                val = get(sp).cells[cn]
            elif "module" in v:
                val = __import__(v["module"])
            else:
                val = mkval(v)
            if op["space"] == "" or not op.get("mode"):
                setattr(owner, op["name"], val)
            else:
                owner.set_ref(op["name"], val, refmode=op["mode"])
        elif k == "cells":
            get(op["space"]).new_cells(op["name"], formula=cell_source(op), is_cached=op.get("cached", True))
        elif k == "override":
            c = get(op["space"]).cells[op["name"]]
            c.formula = cell_source(op)
            if not op.get("cached", True):
                c.is_cached = False
        elif k == "allow_none":
            get(op["space"]).allow_none = op["value"]
        elif k == "set_cached":
            get(op["space"]).cells[op["name"]].is_cached = op["cached"]
        else:
            raise ValueError(k)
    return m
