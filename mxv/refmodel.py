"""The reference model: a small, independent restatement of the definitions
(DESIGN 2.3).  It never looks at modelx: it is a mutable description of a
model (spaces, ordered bases, cells definitions, references, space formulas)
plus

  * mro()        textbook C3 over ordered direct bases
  * members()    names defined in the space + names defined along the MRO
  * binding()    the relative/absolute rule of C10 as stated
  * Evaluator    compiles the *same formula source* modelx gets and runs it as
                 plain Python with globals resolved lazily through the
                 definitions; no cache (a per-query memo only bounds cost);
                 records the ground-truth dependency relation.

Values that fall outside what the statements specify evaluate to UNKNOWN, and
callers assert nothing for them.
"""
import builtins
import collections


class Unknown:
    def __repr__(self):
        return "<UNKNOWN>"


UNKNOWN = Unknown()


class NoneReturnedError(ValueError):
    """a cached cells returned None where None is not allowed (same class name as modelx's)"""


class RefError(Exception):
    """the reference model cannot give an opinion (outside the specified domain)"""


# ------------------------------------------------------------------ definitions
class RCell:
    def __init__(self, name, params, body, lam=False, cached=True, allow_none=None, doc=None, probe=True):
        self.name = name
        self.params = [tuple(p) for p in params]     # [(name, default-or-None)]
        self.body = body                              # expression text
        self.lam = lam
        self.cached = cached
        self.allow_none = allow_none
        self.doc = doc
        self.probe = probe

    def copy(self):
        return RCell(self.name, self.params, self.body, self.lam, self.cached, self.allow_none, self.doc, self.probe)

    def sig(self):
        return ", ".join(p if d is None else "%s=%r" % (p, d) for p, d in self.params)

    def keyexpr(self):
        names = [p for p, _ in self.params]
        return "(" + ", ".join(names) + ("," if len(names) == 1 else "") + ")"

    def source(self, name=None):
        name = name or self.name
        if not self.probe:
            if self.lam:
                return "lambda %s: %s" % (self.sig(), self.body)
            return "def %s(%s):\n    return %s" % (name, self.sig(), self.body)
        k = self.keyexpr()
        if self.lam:
            return "lambda %s: post__(_space, %r, %s, (pre__(_space, %r, %s), %s)[1])" % (
                self.sig(), name, k, name, k, self.body)
        return "def %s(%s):\n    pre__(_space, %r, %s)\n    return post__(_space, %r, %s, %s)" % (
            name, self.sig(), name, k, name, k, self.body)

    def bind(self, args, kwargs):
        """the element key: positional + keyword + defaults -> tuple (TypeError like Python)"""
        names = [p for p, _ in self.params]
        if len(args) > len(names):
            raise TypeError("too many positional arguments")
        vals = dict(zip(names, args))
        for k, v in kwargs.items():
            if k not in names or k in vals:
                raise TypeError("bad keyword %s" % k)
            vals[k] = v
        out = []
        for p, d in self.params:
            if p in vals:
                out.append(vals[p])
            elif d is not None:
                out.append(d)
            else:
                raise TypeError("missing argument %s" % p)
        return tuple(out)


class RRef:
    def __init__(self, name, kind, value, mode="auto"):
        self.name = name
        self.kind = kind          # "lit" | "space" | "cell"
        self.value = value        # literal | RSpace | (RSpace, cellname)
        self.mode = mode

    def is_obj(self):
        return self.kind in ("space", "cell")


class RFormula:
    """space formula: parameters + what it returns (None / refs / base)"""
    def __init__(self, params, refs=None, base=None, lam=False):
        self.params = [tuple(p) for p in params]
        self.refs = dict(refs) if refs else None     # {name: expression text over the parameters}
        self.base = base                              # RSpace or None
        self.base_path = base.path() if base is not None else None    # the source text names the base by path
        self.lam = lam

    def sig(self):
        return ", ".join(p if d is None else "%s=%r" % (p, d) for p, d in self.params)

    def retexpr(self):
        parts = []
        if self.base is not None:
            parts.append("'base': _model.%s" % self.base.path())
        if self.refs:
            parts.append("'refs': {%s}" % ", ".join("%r: %s" % (k, v) for k, v in sorted(self.refs.items())))
        return "{%s}" % ", ".join(parts) if parts else "None"

    def source(self):
        if self.lam:
            return "lambda %s: %s" % (self.sig(), self.retexpr())
        return "def _formula(%s):\n    return %s" % (self.sig(), self.retexpr())

    bind = RCell.bind


class RSpace:
    def __init__(self, name, parent):
        self.name = name
        self.parent = parent          # RSpace or RModel
        self.children = collections.OrderedDict()
        self.cells = collections.OrderedDict()    # defined only
        self.refs = collections.OrderedDict()     # defined only
        self.bases = []                            # direct, ordered
        self.formula = None
        self.allow_none = None
        self.doc = None
        self.deleted = False

    def path(self):
        p = self.parent
        return self.name if isinstance(p, RModel) else p.path() + "." + self.name

    def model(self):
        p = self
        while not isinstance(p, RModel):
            p = p.parent
        return p

    def walk(self):
        yield self
        for c in self.children.values():
            yield from c.walk()

    def is_within(self, other):
        """self is other or a descendant of other"""
        p = self
        while isinstance(p, RSpace):
            if p is other:
                return True
            p = p.parent
        return False

    def __repr__(self):
        return "<RSpace %s>" % self.path()


class RModel:
    def __init__(self, name="M"):
        self.name = name
        self.children = collections.OrderedDict()
        self.refs = collections.OrderedDict()      # name -> RRef (mode irrelevant)
        self.allow_none = None

    def walk(self):
        for c in self.children.values():
            yield from c.walk()

    def get(self, path):
        if path == "":
            return self
        o = self
        for p in path.split("."):
            o = o.children[p]
        return o

    def all_spaces(self):
        return list(self.walk())

    # ---------------------------------------------------------------- derivation
    def subs_of(self, space):
        """spaces having `space` in their MRO (excluding itself)"""
        out = []
        for s in self.walk():
            if s is not space:
                try:
                    if space in mro(s):
                        out.append(s)
                except TypeError:
                    pass
        return out


def mro(space):
    """textbook C3 linearisation over ordered direct bases"""
    seqs = [mro(b) for b in space.bases] + [list(space.bases)]
    res = [space]
    while True:
        seqs = [q for q in seqs if q]
        if not seqs:
            return res
        for q in seqs:
            cand = q[0]
            if not any(cand in t[1:] for t in seqs):
                break
        else:
            raise TypeError("no consistent MRO for %s" % space.path())
        res.append(cand)
        seqs = [[x for x in q if x is not cand] for q in seqs]


def has_cycle(model):
    color = {}

    def visit(s):
        color[s] = 1
        for b in s.bases:
            if color.get(b) == 1:
                return True
            if b not in color and visit(b):
                return True
        color[s] = 2
        return False
    return any(s not in color and visit(s) for s in model.walk())


def members(space):
    """{'cells': {name: (definer RSpace, RCell)}, 'refs': {name: (definer, RRef)}}"""
    cells, refs = collections.OrderedDict(), collections.OrderedDict()
    for sp in mro(space):
        for n, c in sp.cells.items():
            cells.setdefault(n, (sp, c))
        for n, r in sp.refs.items():
            refs.setdefault(n, (sp, r))
    return {"cells": cells, "refs": refs}


def binding(deriver, definer, ref):
    """C10 as stated, for static derivation.  Returns ('lit', v) | ('space', RSpace) |
    ('cell', RSpace, name) | UNKNOWN"""
    if ref.kind == "lit":
        return ("lit", ref.value)
    tspace = ref.value if ref.kind == "space" else ref.value[0]
    if getattr(tspace, "deleted", False):
        return UNKNOWN
    if deriver is definer or ref.mode == "absolute":
        return _as_binding(ref)
    if tspace is definer:
        if ref.kind == "space":
            return ("space", deriver)
        return ("cell", deriver, ref.value[1])
    if tspace.is_within(definer):
        return UNKNOWN          # descendant target under static derivation: statement is silent
    # outside the definer's tree.  A target may still be "relatively" reachable when definer and
    # deriver sit at corresponding places of two trees one of which derives from the other; the
    # statement does not speak about that: unknown unless the trees are unrelated at every level.
    if _related_ancestors(deriver, definer, tspace):
        return UNKNOWN
    return _as_binding(ref)


def _as_binding(ref):
    if ref.kind == "space":
        return ("space", ref.value)
    return ("cell", ref.value[0], ref.value[1])


def _ancestors(s):
    out = []
    p = s.parent
    while isinstance(p, RSpace):
        out.append(p)
        p = p.parent
    return out


def _related_ancestors(deriver, definer, target):
    """True when some enclosing space of the deriver derives from an enclosing space of the definer that
    also contains the target (then modelx's relative mapping may legitimately apply)"""
    for da in _ancestors(definer):
        if target.is_within(da):
            for sa in _ancestors(deriver):
                try:
                    if da in mro(sa):
                        return True
                except TypeError:
                    return True
    return False


# ------------------------------------------------------------------ instances
class Inst:
    """a space instance: a static space, an ItemSpace, or a dynamic child inside an ItemSpace"""
    __slots__ = ("space", "kind", "parent", "args", "extra", "root", "_repr")

    def __init__(self, space, kind="static", parent=None, args=None, extra=None, root=None):
        self.space = space       # the static space it mirrors (for ItemSpaces: the base actually used)
        self.kind = kind         # static | item | dyn
        self.parent = parent     # for item: Inst of the parametrised space; for dyn: parent Inst
        self.args = args         # OrderedDict for item
        self.extra = extra       # refs returned by the space formula (item only)
        self.root = root         # enclosing ItemSpace Inst (self for item)
        self._repr = None

    def evalrepr(self, mname="M"):
        if self.kind == "static":
            return mname + "." + self.space.path()
        if self.kind == "item":
            return "%s(%s)" % (self.parent.evalrepr(mname), ", ".join(repr(v) for v in self.args.values()))
        return self.parent.evalrepr(mname) + "." + self.space.name

    def key(self):
        if self.kind == "static":
            return ("s", id(self.space))
        if self.kind == "item":
            return ("i", self.parent.key(), tuple(self.args.values()))
        return ("d", self.parent.key(), self.space.name)

    def allargs(self):
        """own arguments first, then the enclosing ItemSpaces'"""
        out = collections.OrderedDict()
        i = self
        while i is not None and i.kind != "static":
            if i.kind == "item":
                for k, v in i.args.items():
                    out.setdefault(k, v)
            i = i.parent
        return out


class Evaluator:
    """pure evaluation against the definitions; records ground-truth dependencies"""

    def __init__(self, model, mname="M"):
        self.model = model
        self.mname = mname
        self.memo = {}            # (inst key, cell, key) -> value   (per query batch; never survives an edit)
        self.calls = collections.defaultdict(list)    # element -> [direct callee elements] in call order
        self.refreads = collections.defaultdict(set)  # element -> {(owner repr, refname)} read by name / attr path
        self.stack = []
        self.compiled = {}
        self.steps = 0
        self.max_steps = 200000
        self.inputs = {}          # (inst key, cellname, key) -> value  (assigned by the user)

    # -- public
    def static(self, path):
        return Inst(self.model.get(path))

    def inst_from_steps(self, steps):
        """steps: [['s', name] | ['i', args, kwargs]] from the model root"""
        inst = None
        for st in steps:
            if st[0] == "s":
                if inst is None:
                    inst = Inst(self.model.children[st[1]])
                else:
                    inst = self.child(inst, st[1])
            else:
                inst = self.item(inst, st[1], st[2] if len(st) > 2 else {})
        return inst

    def element(self, inst, name, key):
        return (inst.evalrepr(self.mname), name, tuple(key))

    def evaluate(self, inst, name, args=(), kwargs=None):
        cdef = self.cell_def(inst, name)
        key = cdef.bind(tuple(args), kwargs or {})
        return self._eval_key(inst, name, cdef, key)

    # -- structure
    def cell_def(self, inst, name):
        mem = members(inst.space)["cells"]
        if name not in mem:
            raise AttributeError(name)
        return mem[name][1]

    def child(self, inst, name):
        ch = inst.space.children[name]
        if inst.kind == "static":
            return Inst(ch)
        return Inst(ch, "dyn", parent=inst, root=inst.root)

    def item(self, inst, args, kwargs=None):
        """the ItemSpace of `inst` for the given call arguments"""
        f = inst.space.formula
        if f is None:
            raise RefError("not parametrised")
        key = f.bind(tuple(args), kwargs or {})
        argd = collections.OrderedDict(zip([p for p, _ in f.params], key))
        extra = None
        base = inst.space
        if f.refs:
            env = dict(argd)
            extra = collections.OrderedDict()
            for k, expr in sorted(f.refs.items()):
                extra[k] = eval(expr, {"__builtins__": builtins}, env)     # noqa: S307  expressions over parameters only
        if f.base is not None:
            if getattr(f.base, "deleted", False) or f.base.path() != f.base_path:
                raise RefError("the formula names its base by a path that no longer leads to it")
            base = f.base
        it = Inst(base, "item", parent=inst, args=argd, extra=extra)
        it.root = it
        return it

    # -- name resolution
    def resolve(self, inst, name, reader=None):
        """value bound to `name` in the namespace of `inst` (KeyError when absent -> builtins)"""
        sp = inst.space
        mem = members(sp)
        if name in mem["cells"]:
            return CellProxy(self, inst, name)
        if inst.kind != "static":
            aa = inst.allargs()
            if name in aa:
                return aa[name]
            if inst.kind == "item" and inst.extra and name in inst.extra:
                return inst.extra[name]
        elif name in mem["refs"]:
            return self._refvalue(inst, name, mem, reader)
        if name in ("_self", "_space"):
            return SpaceProxy(self, inst)
        if name == "_model":
            return ModelProxy(self)
        if inst.kind != "static" and name in mem["refs"]:
            return self._refvalue(inst, name, mem, reader)
        if name in self.model.refs:
            if reader is not None:
                self.refreads[reader].add((self.mname, name))
            return self._wrap(_as_binding(self.model.refs[name]) if self.model.refs[name].is_obj()
                              else ("lit", self.model.refs[name].value), None)
        if name in sp.children:
            return SpaceProxy(self, self.child(inst, name))
        raise KeyError(name)

    def _refvalue(self, inst, name, mem, reader):
        definer, ref = mem["refs"][name]
        if reader is not None:
            self.refreads[reader].add((inst.evalrepr(self.mname), name))
        if inst.kind == "static":
            b = binding(inst.space, definer, ref)
            return self._wrap(b, None)
        # inside a dynamic tree: first the static binding in the mirrored space, then the
        # base-tree -> dynamic-tree mapping for relative bindings
        b = binding(inst.space, definer, ref)
        if b is UNKNOWN:
            raise RefError("unspecified binding")
        if b[0] == "lit" or ref.mode == "absolute":
            return self._wrap(b, None)
        root = inst.root
        tspace = b[1]
        if tspace.is_within(root.space):
            return self._wrap(b, root)
        return self._wrap(b, None)

    def _wrap(self, b, root):
        if b is UNKNOWN:
            raise RefError("unspecified binding")
        if b[0] == "lit":
            return b[1]
        tspace = b[1]
        if getattr(tspace, "deleted", False):
            raise RefError("reference to a deleted object")
        if root is None:
            inst = Inst(tspace)
        else:
            # walk down from the root ItemSpace along the relative path
            rel = []
            s = tspace
            while s is not root.space:
                rel.append(s.name)
                s = s.parent
            inst = root
            for n in reversed(rel):
                inst = self.child(inst, n)
        if b[0] == "space":
            return SpaceProxy(self, inst)
        return CellProxy(self, inst, b[2])

    # -- evaluation
    def _function(self, inst, name, cdef):
        src = cdef.source(name)
        code = self.compiled.get(src)
        if code is None:
            if cdef.lam:
                code = compile("__f__ = " + src, "<ref:%s>" % name, "exec")
            else:
                code = compile(src, "<ref:%s>" % name, "exec")
            self.compiled[src] = code
        g = Globals(self, inst)
        exec(code, g)     # noqa: S102
        # the definition must not stay visible in the globals: the formula's own name has to
        # resolve through the model like every other name
        return dict.pop(g, "__f__" if cdef.lam else name)

    def _eval_key(self, inst, name, cdef, key):
        el = self.element(inst, name, key)
        if self.stack:
            self.calls[self.stack[-1]].append(el)
        ik = (inst.key(), name, key)
        if ik in self.inputs:
            return self.inputs[ik]
        if ik in self.memo:
            return self.memo[ik]
        self.steps += 1
        if self.steps > self.max_steps or len(self.stack) > 400:
            raise RefError("evaluation budget exceeded")
        self.calls[el] = []
        self.refreads[el] = set()
        fn = self._function(inst, name, cdef)
        self.stack.append(el)
        try:
            v = fn(*key)
        finally:
            self.stack.pop()
        if v is None and cdef.cached and not self.allow_none(inst, name):
            raise NoneReturnedError(str(el))
        self.memo[ik] = v
        return v

    def allow_none(self, inst, name):
        """cells setting, else the nearest enclosing space instance that has one, else the model's"""
        cdef = self.cell_def(inst, name)
        if cdef.allow_none is not None:
            return cdef.allow_none
        i = inst
        while i is not None:
            if i.space.allow_none is not None:
                return i.space.allow_none
            if i.kind == "static":
                p = i.space.parent
                i = Inst(p) if isinstance(p, RSpace) else None
            else:
                i = i.parent
        return bool(self.model.allow_none)


class Globals(dict):
    """formula globals that resolve lazily through the definitions"""
    def __init__(self, ev, inst):
        dict.__init__(self)
        self.ev = ev
        self.inst = inst
        dict.__setitem__(self, "__builtins__", builtins)

    def __getitem__(self, name):
        if dict.__contains__(self, name):
            return dict.__getitem__(self, name)
        if name == "pre__":
            return _noop_pre
        if name == "post__":
            return _noop_post
        reader = self.ev.stack[-1] if self.ev.stack else None
        return self.ev.resolve(self.inst, name, reader)      # KeyError -> Python looks in builtins


def _noop_pre(space, name, key):
    return None


def _noop_post(space, name, key, value):
    return value


class CellProxy:
    def __init__(self, ev, inst, name):
        self.ev, self.inst, self.name = ev, inst, name

    def __call__(self, *args, **kwargs):
        return self.ev.evaluate(self.inst, self.name, args, kwargs)

    def canon(self):
        return {"obj": self.inst.evalrepr(self.ev.mname) + "." + self.name, "type": "Cells"}


class SpaceProxy:
    def __init__(self, ev, inst):
        object.__setattr__(self, "_ev", ev)
        object.__setattr__(self, "_inst", inst)

    def __getattr__(self, name):
        if name.startswith("__"):
            raise AttributeError(name)
        ev, inst = self._ev, self._inst
        reader = ev.stack[-1] if ev.stack else None
        try:
            return ev.resolve(inst, name, reader)
        except KeyError:
            raise AttributeError(name)

    def __call__(self, *args, **kwargs):
        return SpaceProxy(self._ev, self._ev.item(self._inst, args, kwargs))

    def __getitem__(self, key):
        args = key if isinstance(key, tuple) else (key,)
        return SpaceProxy(self._ev, self._ev.item(self._inst, args, {}))

    def canon(self):
        return {"obj": self._inst.evalrepr(self._ev.mname),
                "type": {"static": "UserSpace", "item": "ItemSpace", "dyn": "DynamicSpace"}[self._inst.kind]}


class ModelProxy:
    def __init__(self, ev):
        object.__setattr__(self, "_ev", ev)

    def __getattr__(self, name):
        if name.startswith("__"):
            raise AttributeError(name)
        ev = self._ev
        m = ev.model
        if name in m.children:
            return SpaceProxy(ev, Inst(m.children[name]))
        if name in m.refs:
            reader = ev.stack[-1] if ev.stack else None
            if reader is not None:
                ev.refreads[reader].add((ev.mname, name))
            r = m.refs[name]
            return ev._wrap(_as_binding(r) if r.is_obj() else ("lit", r.value), None)
        raise AttributeError(name)

    def canon(self):
        return {"obj": self._ev.mname, "type": "Model"}


def canon_ref(v):
    """canonical form of a reference-model value, comparable with mxutil.canon of the live one"""
    from .mxutil import canon
    if isinstance(v, (CellProxy, SpaceProxy, ModelProxy)):
        return v.canon()
    if isinstance(v, tuple):
        return {"t": [canon_ref(x) for x in v]}
    if isinstance(v, list):
        return [canon_ref(x) for x in v]
    return canon(v)


# ------------------------------------------------------------------ applying ops to the definitions
def mk_cell(op, probe=True):
    return RCell(op["name"], op["params"], op["body"], lam=op.get("lam", False),
                 cached=op.get("cached", True), probe=op.get("probe", probe))


class _PathOnly:
    def __init__(self, p):
        self._p = p

    def path(self):
        return self._p


def mk_formula(rm, fd):
    if fd is None:
        return None
    base = None
    if fd.get("base"):
        base = rm.get(fd["base"]) if rm is not None else _PathOnly(fd["base"])
    return RFormula(fd["params"], refs=fd.get("refs"), base=base, lam=fd.get("lam", False))


def static_path(steps):
    if all(s[0] == "s" for s in steps):
        return ".".join(s[1] for s in steps)
    return None


def deriving_paths(rm, path, name):
    """path itself + sub spaces whose cells `name` derives from the one defined in `path`"""
    out = [path]
    try:
        rs = rm.get(path)
    except KeyError:
        return out
    for s in rm.subs_of(rs):
        try:
            d = members(s)["cells"].get(name)
        except TypeError:
            continue
        if d is not None and d[0] is rs:
            out.append(s.path())
    return out


def _drop_inputs(inputs, paths, name=None, tree=False):
    for k in list(inputs):
        if tree:
            hit = any(k[0] == p or k[0].startswith(p + ".") for p in paths)
        else:
            hit = k[0] in paths and (name is None or k[1] == name)
        if hit:
            del inputs[k]


def apply_op(rm, op, inputs, probe=True):
    """mirror an accepted edit in the definitions; `inputs` maps (static path, cells, key) -> value"""
    k = op["op"]
    if k == "new_space":
        rp = rm.get(op.get("parent", ""))
        s = RSpace(op["name"], rp)
        s.bases = [rm.get(b) for b in op.get("bases", [])]
        s.formula = mk_formula(rm, op.get("formula"))
        rp.children[op["name"]] = s
    elif k == "new_cells":
        rm.get(op["space"]).cells[op["name"]] = mk_cell(op, probe)
    elif k == "set_formula":
        rs = rm.get(op["space"])
        cd = mk_cell(op, probe)
        old = members(rs)["cells"].get(op["name"])
        if old is not None:
            cd.cached = old[1].cached
            cd.allow_none = old[1].allow_none
            cd.doc = None
        rs.cells[op["name"]] = cd
        _drop_inputs(inputs, deriving_paths(rm, op["space"], op["name"]), op["name"])
    elif k == "del_cells":
        rs = rm.get(op["space"])
        paths = deriving_paths(rm, op["space"], op["name"])
        rs.cells.pop(op["name"], None)
        _drop_inputs(inputs, paths, op["name"])
    elif k == "rename_cells":
        # only the definition is renamed; derived copies follow it, own cells of sub spaces keep their name
        rs = rm.get(op["space"])
        paths = deriving_paths(rm, op["space"], op["name"])
        if op["name"] in rs.cells:
            rs.cells[op["name"]].name = op["new"]
            rs.cells = collections.OrderedDict(
                (op["new"] if n == op["name"] else n, c) for n, c in rs.cells.items())
        for s in [rs] + rm.subs_of(rs):
            _drop_inputs(inputs, [s.path()], op["name"])
    elif k == "set_cached":
        rs = rm.get(op["space"])
        mem = members(rs)["cells"][op["name"]]
        if mem[0] is not rs:          # setting a property on a derived cells defines it in the sub
            rs.cells[op["name"]] = mem[1].copy()
        rs.cells[op["name"]].cached = op["cached"]
        _drop_inputs(inputs, deriving_paths(rm, op["space"], op["name"]), op["name"])
    elif k == "set_allow_none":
        if "name" in op:
            rm.get(op["space"]).cells[op["name"]].allow_none = op["value"]
        else:
            rm.get(op["space"]).allow_none = op["value"]
    elif k == "set_ref":
        v = op["value"]
        if "lit" in v:
            x = v["lit"]
            kind, rv = "lit", (tuple(x) if isinstance(x, list) else x)
        elif "space" in v:
            kind, rv = "space", rm.get(v["space"])
        else:
            sp, name = v["cell"].rsplit(".", 1)
            kind, rv = "cell", (rm.get(sp), name)
        mode = "auto" if (op["space"] == "" or op.get("via") == "setattr") else op.get("mode", "auto")
        rm.get(op["space"]).refs[op["name"]] = RRef(op["name"], kind, rv, mode)
    elif k == "del_ref":
        rm.get(op["space"]).refs.pop(op["name"], None)
    elif k == "del_space":
        parent_path, _, name = op["path"].rpartition(".")
        rs = rm.get(op["path"])
        gone = list(rs.walk())
        for g in gone:
            g.deleted = True
        del rm.get(parent_path).children[name]
        for s in rm.walk():
            s.bases = [b for b in s.bases if b not in gone]
        _drop_inputs(inputs, [op["path"]], tree=True)
    elif k == "rename_space":
        rs = rm.get(op["path"])
        rp = rs.parent
        rp.children = collections.OrderedDict(
            (op["new"] if n == rs.name else n, c) for n, c in rp.children.items())
        _drop_inputs(inputs, [op["path"]], tree=True)      # renaming clears the whole tree incl. inputs
        rs.name = op["new"]
    elif k == "add_bases":
        rm.get(op["space"]).bases.extend(rm.get(b) for b in op["bases"])
    elif k == "remove_bases":
        rs = rm.get(op["space"])
        for b in op["bases"]:
            rs.bases.remove(rm.get(b))
    elif k == "set_space_formula":
        rm.get(op["space"]).formula = mk_formula(rm, op.get("formula"))
    elif k == "assign":
        p = static_path(op["inst"])
        if p is not None:
            cd = members(rm.get(p))["cells"][op["name"]][1]
            inputs[(p, op["name"], cd.bind(tuple(op["args"]), {}))] = op["value"]
    elif k == "clear_at":
        p = static_path(op["inst"])
        if p is not None:
            cd = members(rm.get(p))["cells"][op["name"]][1]
            inputs.pop((p, op["name"], cd.bind(tuple(op["args"]), {})), None)
    elif k == "clear_all":
        if "name" in op:
            p = static_path(op["inst"])
            if p is not None:
                _drop_inputs(inputs, [p], op["name"])
        else:
            inputs.clear()
    elif k in ("set_doc", "clear", "eval", "nop"):
        pass
    else:
        raise ValueError("apply_op: unknown op %s" % k)
