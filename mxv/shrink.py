"""Greedy minimisation of a violating history (case["ops"]).

An op is neutralised by replacing it with {"op": "nop"} (positions stay, so ops
that address objects by creation index keep their meaning) and trailing ops are
cut.  A candidate is accepted when the property module still reports a
violation with one of the original signatures.
"""
import copy
import time


def _sigs(violations):
    return {v.get("signature") for v in violations}


def shrink_ops(case, run_case, violations, deadline, key="ops"):
    from .mxutil import reset_session
    want = _sigs(violations)
    best = copy.deepcopy(case)

    def still(c):
        reset_session()
        try:
            r = run_case(c)
        except Exception:     # noqa
            return False
        return bool(want & _sigs(r.get("violations") or []))

    ops = best.get(key)
    if not isinstance(ops, list):
        return None
    # cut the tail first
    lo, hi = 0, len(ops)
    while lo < hi and time.time() < deadline:
        mid = (lo + hi) // 2
        c = dict(best)
        c[key] = ops[:mid]
        if still(c):
            hi = mid
        else:
            lo = mid + 1
    best[key] = ops[:hi]
    changed = True
    while changed and time.time() < deadline:
        changed = False
        for i in range(len(best[key]) - 1, -1, -1):
            if time.time() > deadline:
                break
            if best[key][i].get("op") == "nop":
                continue
            c = dict(best)
            c[key] = best[key][:i] + [{"op": "nop"}] + best[key][i + 1:]
            if still(c):
                best = c
                changed = True
    best["shrunk"] = True
    return best
