"""Shared engine of C06 (value edits discard exactly the dependents; inputs persist) and
C08 (reported dependencies are exactly the calls made; graph and cache agree).

Models are random dependency DAGs over two spaces (A and its child A.Ch) whose call
structure the generator knows: every call term is `<path>cJ(<arg expr in x>)`, every
reference read is an unconditional term.  The ground-truth relation (direct callees of
an element, references read by its own formula) is computed from the spec and
cross-checked against the ENTER nesting the probe observes - two independent recorders;
when they disagree the case is inconclusive.  modelx's own graph is never the oracle.
"""
import collections
import random

from .mxutil import mx, reset_session, sanity, Inconclusive, val
from .live import Probe

ARGS = {"x": lambda x: x, "0": lambda x: 0, "1": lambda x: 1, "(x - 1 if x > 0 else 0)": lambda x: max(x - 1, 0)}
REFS = {                       # term text by (reader space) -> (owner repr, name, how)
    "A": [("r", ("M.A", "r"), "name"), ("_space.r", ("M.A", "r"), "attr"), ("Ch.k", ("M.A.Ch", "k"), "attr"),
          ("g", ("M", "g"), "name"), ("_model.A.Ch.k", ("M.A.Ch", "k"), "attr"),
          ("_space.g", ("M", "g"), "attr"), ("Ch.g", ("M", "g"), "attr")],     # seen there, owned by the model
    "A.Ch": [("k", ("M.A.Ch", "k"), "name"), ("_space.k", ("M.A.Ch", "k"), "attr"), ("g", ("M", "g"), "name"),
             ("_model.A.r", ("M.A", "r"), "attr"), ("_model.A.g", ("M", "g"), "attr")],
}


class UserErr(Exception):
    pass


def gen_spec(rnd, n=None):
    n = n or rnd.randint(3, 8)
    cells = []
    for i in range(n):
        space = "A.Ch" if rnd.random() < 0.3 else "A"
        terms = []
        for j in rnd.sample(range(i), min(i, rnd.randint(0, 3))):
            terms.append([j, rnd.choice(list(ARGS))])
        refs = rnd.sample(range(len(REFS[space])), rnd.randint(0, 2))
        cells.append({"name": "c%d" % i, "space": space, "terms": terms, "rec": rnd.random() < 0.3,
                      "cached": rnd.random() > 0.3, "refs": refs, "two": rnd.random() < 0.3,
                      "refs_first": rnd.random() < 0.5})
    return {"cells": cells, "refvals": {"r": rnd.randint(1, 5), "k": rnd.randint(1, 5), "g": rnd.randint(1, 5)},
            "allow_none": rnd.random() < 0.5}


def callee_text(spec, i, j):
    a, b = spec["cells"][i]["space"], spec["cells"][j]["space"]
    n = spec["cells"][j]["name"]
    if a == b:
        return n
    if a == "A" and b == "A.Ch":
        return "Ch." + n
    return "_model.A." + n


def body(spec, i):
    c = spec["cells"][i]
    parts = ["catch__(lambda: %s(%s))" % (callee_text(spec, i, j), a) for j, a in c["terms"]]
    if c["rec"]:
        parts.append("(catch__(lambda: %s(x - 1)) if x > 0 else 0)" % c["name"])
    rparts = [REFS[c["space"]][k][0] for k in c["refs"]]
    parts = rparts + parts if c.get("refs_first") else parts + rparts
    parts.append("x")
    return " + ".join(parts)


def source(spec, i):
    c = spec["cells"][i]
    sig = "x, y=0" if c.get("two") else "x"      # the second parameter is always left at its default
    return ("def %s(%s):\n    pre__(_space, %r, (x,))\n    return post__(_space, %r, (x,), %s)"
            % (c["name"], sig, c["name"], c["name"], body(spec, i)))


def build(spec, probe):
    m = mx.new_model("M")
    m.pre__ = probe.pre
    m.post__ = probe.post

    def catch(thunk):
        """what a formula with try/except around a callee does: when the harness switch is on, a UserErr
        raised below is handled here, inside the calling formula, and 0 is used instead"""
        try:
            return thunk()
        except UserErr:
            if getattr(probe, "catching", False):
                probe.caught = getattr(probe, "caught", 0) + 1
                return 0
            raise
    m.catch__ = catch
    if spec.get("allow_none"):
        m.allow_none = True        # None may then be assigned (only to elements no formula reads, see gen_ops)
    m.g = spec["refvals"]["g"]
    A = m.new_space("A")
    Ch = A.new_space("Ch")
    A.r = spec["refvals"]["r"]
    Ch.k = spec["refvals"]["k"]
    for i, c in enumerate(spec["cells"]):
        sp = A if c["space"] == "A" else Ch
        sp.new_cells(c["name"], formula=source(spec, i), is_cached=c["cached"])
    return m


class Truth:
    """ground truth from the spec"""

    def __init__(self, spec):
        self.spec = spec
        self.idx = {c["name"]: i for i, c in enumerate(spec["cells"])}

    def direct(self, el):
        i, x = el
        c = self.spec["cells"][i]
        out = [(j, ARGS[a](x)) for j, a in c["terms"]]
        if c["rec"] and x > 0:
            out.append((i, x - 1))
        return list(dict.fromkeys(out))

    def cached(self, i):
        return self.spec["cells"][i]["cached"]

    def cached_preds(self, el, inputs=()):
        """C08: through uncached cells -> the cached elements those reached + the uncached cells themselves"""
        elems, objs = set(), set()
        st = list(self.direct(el))
        seen = set()
        while st:
            d = st.pop()
            if d in seen:
                continue
            seen.add(d)
            if self.cached(d[0]):
                elems.add(d)
            else:
                objs.add(d[0])
                st.extend(self.direct(d))
        return elems, objs

    def refs_read(self, el):
        """references the element's own formula reads, plus those read inside uncached cells it calls
        (they are attributed to the nearest cached caller)"""
        out = set()
        st = [el]
        seen = set()
        first = True
        while st:
            d = st.pop()
            if d in seen:
                continue
            seen.add(d)
            c = self.spec["cells"][d[0]]
            for k in c["refs"]:
                out.add((REFS[c["space"]][k][1], REFS[c["space"]][k][2], first))
            for e in self.direct(d):
                if not self.cached(e[0]):
                    st.append(e)
            first = False
        return out

    def dependents(self, held, el, inputs):
        """held cached elements computed directly or transitively from el (inputs cut the chain: an assigned
        value was not computed from anything)"""
        out = set()
        frontier = [el]
        while frontier:
            cur = frontier.pop()
            for h in held:
                if h in out or h in inputs or h == el:
                    continue
                pe, _ = self.cached_preds(h)
                if cur in pe:
                    out.add(h)
                    frontier.append(h)
        return out


def cell_obj(m, spec, i):
    c = spec["cells"][i]
    return (m.A if c["space"] == "A" else m.A.Ch).cells[c["name"]]


def held_elems(m, spec):
    out = set()
    for i, c in enumerate(spec["cells"]):
        co = cell_obj(m, spec, i)
        for k in dict(co):
            out.add((i, k if not isinstance(k, tuple) else k[0]))
    return out


def input_elems(m, spec):
    out = set()
    for i, c in enumerate(spec["cells"]):
        co = cell_obj(m, spec, i)
        for k in dict(co):
            x = k if not isinstance(k, tuple) else k[0]
            if co.is_input(x):
                out.add((i, x))
    return out


def el_of_event(truth, e):
    return (truth.idx[e[2]], e[3][0])


def gen_ops(rnd, spec, nops, recalc=False, with_failures=False):
    n = len(spec["cells"])
    ops = []
    if recalc:
        ops.append({"op": "recalc", "on": True})
    kinds = ["eval", "eval", "eval", "assign", "assign", "assign_same", "clear_at", "clear", "clear_all", "refchange",
             "del_value"]
    if with_failures:
        kinds += ["fail", "fail", "fail_caught", "fail_caught"]
    for _ in range(3):           # first make many values held: evaluate cells from the top of the DAG
        ops.append({"op": "eval", "i": rnd.randrange(n // 2, n), "x": rnd.randint(1, 3)})
    for _ in range(nops):
        k = rnd.choice(kinds)
        i = rnd.randrange(n)
        x = rnd.randint(0, 3)
        if k in ("assign", "assign_same", "clear_at", "del_value") and rnd.random() < 0.7:
            i = rnd.randrange(0, max(1, n // 2))       # edits aim at the bottom of the DAG
            x = rnd.randint(0, 2)
        if k == "eval" and rnd.random() < 0.5:
            i = rnd.randrange(n // 2, n)
        if k == "refchange":
            ops.append({"op": k, "ref": rnd.choice(["r", "k", "g"]), "value": rnd.randint(6, 30)})
        elif k in ("fail", "fail_caught"):
            if k == "fail_caught":
                i = rnd.randrange(n // 2, n)
            ops.append({"op": k, "i": i, "x": x, "at": rnd.randrange(1, 7) if k == "fail_caught" else rnd.randrange(6),
                        "when": rnd.choice(["pre", "post"])})
        else:
            value = 1000 + len(ops)
            if k == "assign" and spec.get("allow_none") and rnd.random() < 0.3:
                # None as an assigned value, for an element no formula reads (a formula would fail on None + 1)
                free = [j for j, c in enumerate(spec["cells"]) if c["cached"] and not c["rec"]
                        and not any(t[0] == j for c2 in spec["cells"] for t in c2["terms"])]
                if free:
                    i, value = rnd.choice(free), None
            ops.append({"op": k, "i": i, "x": x, "value": value})
    return ops


def run(case, judge):
    """judge: set of property ids to judge ("C06", "C08"); returns result dict parts"""
    spec, ops = case["spec"], case["ops"]
    truth = Truth(spec)
    probe = Probe()
    reset_session()
    m = build(spec, probe)
    vio = []
    cnt = collections.Counter()
    kinds = []
    recalc = False
    tainted = set()

    def V(prop, kind, sig, **d):
        if prop in judge:
            vio.append({"kind": kind, "signature": sig, "detail": d})

    def check_probe_vs_truth():
        """the ENTER nesting the probe saw must agree with the spec-derived callees (else: inconclusive)"""
        stack = []
        seen_children = collections.defaultdict(list)
        for e in probe.log:
            el = el_of_event(truth, e)
            if e[0] == "E":
                if stack:
                    seen_children[stack[-1]].append(el)
                stack.append(el)
            else:
                while stack and stack[-1] != el:
                    stack.pop()
                if stack:
                    stack.pop()
        for parent, kids in seen_children.items():
            allowed = set(truth.direct(parent))
            for kcell in kids:
                if kcell not in allowed:
                    raise Inconclusive("probe saw a call %s -> %s the spec does not contain" % (parent, kcell))
        cnt["probe_truth_crosschecks"] += len(seen_children)

    def check_precedents(co, i, x, step, op):
        """precedents: the references the element's own formula read (by name or by attribute path)"""
        want = truth.refs_read((i, x))
        try:
            prec = co.precedents(x)
        except Exception as e:     # noqa
            V("C08", "precedents-raise", "precedents() raises for an element holding a value",
              element=[i, x], error=type(e).__name__, step=step, op=op)
            return
        refnames = set()
        for p in prec:
            if type(p).__name__ == "ReferenceNode":
                try:
                    fn = p.obj.fullname
                except Exception:    # noqa
                    fn = repr(p)
                refnames.add(fn)
        cnt["precedents_checks"] += 1
        for (owner, name), how, own in want:
            if not own:
                continue        # read inside an uncached callee: not the element's own formula
            full = owner + "." + name
            if full not in refnames:
                V("C08", "precedents", "precedents() misses a reference the formula read by %s"
                  % ("attribute path" if how == "attr" else "name"),
                  element=[i, x], missing=full, got=sorted(refnames), step=step, op=op)

    def c08_check(step, op):
        he = held_elems(m, spec)
        inputs = input_elems(m, spec)
        nodes = list(m.tracegraph.nodes)
        node_elems = set()
        for nd in nodes:
            if len(nd) > 1:
                try:
                    node_elems.add((truth.idx[nd[0].name], nd[1][0]))
                except Exception:     # noqa
                    V("C08", "graph-foreign", "dependency graph mentions an object that is not a live cells",
                      node=repr(nd)[:100], step=step, op=op)
        cnt["graph_checks"] += 1
        if node_elems != he:
            V("C08", "graph-nodes", "elements in the dependency graph differ from the elements holding a value",
              only_graph=sorted(node_elems - he)[:4], only_held=sorted(he - node_elems)[:4], step=step, op=op)
            return
        import networkx as nx
        if not nx.is_directed_acyclic_graph(m.tracegraph):
            V("C08", "cycle", "dependency graph has a cycle", step=step, op=op)
        for (i, x) in sorted(he):
            co = cell_obj(m, spec, i)
            cnt["preds_checks"] += 1
            if (i, x) in inputs:
                got = co.preds(x)
                if got:
                    V("C08", "input-preds", "an assigned value reports predecessors", element=[i, x],
                      preds=[repr(p) for p in got][:3], step=step, op=op)
                continue
            if (i, x) in tainted:
                try:
                    for p in co.preds(x):
                        if p.args is not None and (truth.idx[p.obj.name], p.args[0]) not in he:
                            V("C08", "preds-valueless", "preds() lists an element that holds no value",
                              element=[i, x], listed=repr(p), step=step, op=op)
                    for q in co.succs(x):
                        if (truth.idx[q.obj.name], q.args[0]) not in he:
                            V("C08", "succs-valueless", "succs() lists an element that holds no value",
                              element=[i, x], listed=repr(q), step=step, op=op)
                except Exception as e:     # noqa
                    V("C08", "preds-raise", "preds()/succs() raises for an element holding a value",
                      element=[i, x], error=type(e).__name__, step=step, op=op)
                check_precedents(co, i, x, step, op)
                continue
            pe, po = truth.cached_preds((i, x))
            try:
                got = co.preds(x)
            except Exception as e:     # noqa
                V("C08", "preds-raise", "preds() raises for an element holding a value", element=[i, x],
                  error=type(e).__name__, step=step, op=op)
                continue
            ge = {(truth.idx[p.obj.name], p.args[0]) for p in got if p.args is not None}
            go = {truth.idx[p.obj.name] for p in got if p.args is None}
            if ge != pe or go != po:
                V("C08", "preds", "preds() differs from the calls the formula made", element=[i, x],
                  got_elems=sorted(ge), got_objs=sorted(go), exp_elems=sorted(pe), exp_objs=sorted(po),
                  step=step, op=op)
            check_precedents(co, i, x, step, op)
        for (i, x) in sorted(he):
            co = cell_obj(m, spec, i)
            try:
                su = {(truth.idx[s.obj.name], s.args[0]) for s in co.succs(x)}
            except Exception as e:     # noqa
                V("C08", "succs-raise", "succs() raises for an element holding a value", element=[i, x],
                  error=type(e).__name__, step=step, op=op)
                continue
            exp = {h for h in he if h not in inputs and (i, x) in truth.cached_preds(h)[0]}
            cnt["succs_checks"] += 1
            if tainted:
                ok = (su - tainted) == (exp - tainted) and su <= he
            else:
                ok = su == exp
            if not ok:
                V("C08", "succs", "succs() is not the inverse of the calls made", element=[i, x],
                  got=sorted(su), expected=sorted(exp), step=step, op=op)

    for step, op in enumerate(ops):
        k = op["op"]
        if k == "nop":
            continue
        kinds.append(k)
        cnt["ops"] += 1
        if k == "recalc":
            mx.set_recalc(op["on"])
            recalc = op["on"]
            continue
        before = held_elems(m, spec)
        inputs_before = input_elems(m, spec)
        probe.reset()
        if k == "assign_same":
            # assign the value the element currently holds (if any): must behave like any assignment
            cur = state_of(m, spec).get((op["i"], op["x"]))
            op = dict(op, op="assign", value=cur if cur is not None else op["value"])
            k = "assign"
        if k == "eval":
            i, x = op["i"], op["x"]
            co = cell_obj(m, spec, i)
            v = val(co, x)
            check_probe_vs_truth()
            ents = [el_of_event(truth, e) for e in probe.log if e[0] == "E"]
            cnt["enter_events"] += len(ents)
            for el in ents:
                if truth.cached(el[0]) and el in before:
                    V("C06", "re-exec", "a kept element's formula ran again", element=list(el), step=step, op=op)
            c2 = collections.Counter(el for el in ents if truth.cached(el[0]))
            if any(n > 1 for n in c2.values()):
                V("C06", "twice", "a cached element executed twice in one evaluation", step=step, op=op)
            if (i, x) in inputs_before and v != state_of(m, spec).get((i, x)):
                V("C06", "input-value", "the cells does not return the assigned value", step=step, op=op)
            if isinstance(v, tuple) and len(v) == 2 and v[0] == "ERR":
                # no formula of these models can fail on its own
                for p_ in judge:
                    V(p_, "eval-raised", "an evaluation raised %s although no formula fails" % v[1], step=step, op=op)
        elif k == "fail_caught":
            i, x = op["i"], op["x"]
            co = cell_obj(m, spec, i)
            probe.armed = {"nth": op["at"], "when": op["when"], "exc": UserErr}
            probe.catching = True
            probe.caught = 0
            v = val(co, x)
            probe.armed = None
            probe.catching = False
            if probe.caught:
                cnt["handled_failures"] += 1
                # callers that used 0 for a failed callee: exact preds/succs are not judged for what ran here
                for e in probe.log:
                    if e[0] == "E":
                        tainted.add(el_of_event(truth, e))
        elif k == "fail":
            i, x = op["i"], op["x"]
            co = cell_obj(m, spec, i)
            # first a dry run on a twin to know which elements would execute: use the event order of a clean
            # evaluation on this model is impossible (it would cache); arm by index of ENTER event instead
            probe.armed = {"nth": op["at"], "when": op["when"], "exc": UserErr}
            v = val(co, x)
            probe.armed = None
            cnt["failed_evals"] += 1 if isinstance(v, tuple) and v and v[0] == "ERR" else 0
        elif k in ("assign", "clear_at", "del_value"):
            i, x = op["i"], op["x"]
            if not truth.cached(i):
                continue
            co = cell_obj(m, spec, i)
            el = (i, x)
            if k != "assign" and el not in before:
                continue
            deps = truth.dependents(before, el, inputs_before)
            if k == "assign":
                co[x] = op["value"]
                exp = (before - deps) | {el}
            else:
                if k == "clear_at":
                    co.clear_at(x)
                else:
                    co.clear_at(x)
                exp = before - deps - {el}
            after = held_elems(m, spec)
            cnt["value_edits"] += 1
            cnt["dependents_discarded"] += len(deps)
            if recalc and k == "assign":
                # discarded dependents are recomputed at once; judged against a lazy twin below
                _recalc_twin_check(case, step, m, spec, truth, V, cnt)
            else:
                if after != exp:
                    extra, lost = after - exp, exp - after
                    V("C06", "held-set",
                      "value edit kept a dependent of the edited element" if extra
                      else "value edit discarded a value that does not depend on the edited element",
                      edit=k, element=list(el), kept_wrongly=sorted(extra)[:4], lost_wrongly=sorted(lost)[:4],
                      step=step, op=op)
                if k == "assign":
                    try:
                        if not co.is_input(x):
                            V("C06", "not-input", "an assigned value is not marked as input", step=step, op=op)
                    except Exception:     # noqa
                        V("C06", "not-input", "an assigned value is not marked as input", step=step, op=op)
                lost_inputs = {e for e in inputs_before if e != el} - input_elems(m, spec)
                if lost_inputs:
                    V("C06", "input-lost", "an edit of another element removed an assigned value",
                      lost=sorted(lost_inputs)[:4], step=step, op=op)
                # kept elements are served without their formula running again
                probe.reset()
                for (i2, x2) in sorted(after):
                    cell_obj(m, spec, i2)(x2)
                if probe.log:
                    V("C06", "kept-recomputed", "a kept element's formula ran again when it was requested",
                      events=[list(e[1:4]) for e in probe.log[:3]], step=step, op=op)
        elif k in ("clear", "clear_all"):
            i = op["i"]
            co = cell_obj(m, spec, i)
            # what goes: the computed (clear) or all (clear_all) elements of the cells, and their dependents
            going = {e for e in before if e[0] == i and (k == "clear_all" or e not in inputs_before)}
            deps = set()
            for e in going:
                deps |= truth.dependents(before, e, inputs_before)
            exp = before - going - deps
            if k == "clear":
                co.clear()
            else:
                co.clear_all()
            after = held_elems(m, spec)
            after_in = input_elems(m, spec)
            cnt["clears"] += 1
            keep_in = inputs_before if k == "clear" else {e for e in inputs_before if e[0] != i}
            if not keep_in <= after_in:
                V("C06", "clear-inputs", "%s() removed assigned values it must keep" % k,
                  lost=sorted(keep_in - after_in)[:4], step=step, op=op)
            elif truth.cached(i) and after != exp:
                extra, lost = after - exp, exp - after
                V("C06", "clear-held-set",
                  "%s() kept a dependent of a cleared element" % k if extra
                  else "%s() discarded a value that does not depend on the cleared elements" % k,
                  kept_wrongly=sorted(extra)[:4], lost_wrongly=sorted(lost)[:4], step=step, op=op)
            else:
                probe.reset()
                for (i2, x2) in sorted(after):
                    cell_obj(m, spec, i2)(x2)
                if probe.log:
                    V("C06", "kept-recomputed", "a kept element's formula ran again when it was requested",
                      events=[list(e[1:4]) for e in probe.log[:3]], step=step, op=op)
        elif k == "refchange":
            owner = {"r": m.A, "k": m.A.Ch, "g": m}[op["ref"]]
            setattr(owner, op["ref"], op["value"])
            after_in = input_elems(m, spec)
            cnt["ref_changes"] += 1
            if not inputs_before <= after_in:
                V("C06", "ref-inputs", "a reference change removed assigned values",
                  lost=sorted(inputs_before - after_in)[:4], step=step, op=op)
        if "C08" in judge:
            c08_check(step, op)
        s = sanity(m)
        if s:
            for p in judge:
                V(p, "sanity", "library self-check failed", probs=s[:3], step=step, op=op)
        if vio:
            break
    nontrivial = cnt["value_edits"] > 0 and cnt["dependents_discarded"] > 0
    return {"violations": vio[:4], "counters": dict(cnt), "nontrivial": nontrivial if "C06" in judge else cnt["preds_checks"] > 0,
            "shape": "%d|%s" % (len(spec["cells"]), ",".join(kinds)), "case": case,
            "sample": {"cells": [dict(c, body=body(spec, i)) for i, c in enumerate(spec["cells"])][:5],
                       "ops": ops[:8]}}


def state_of(m, spec):
    out = {}
    for i, c in enumerate(spec["cells"]):
        for k2, v in dict(cell_obj(m, spec, i)).items():
            out[(i, k2 if not isinstance(k2, tuple) else k2[0])] = v
    return out


def apply_plain(m, spec, truth, probe, op, lazy_recalc):
    """apply one op to a model without judging anything (twin replay).  With lazy_recalc the leaf
    dependents of an assigned element are queried right after the assignment - what the recalculation
    option is documented to do, done lazily."""
    k = op["op"]
    i, x = op.get("i"), op.get("x")
    if k == "assign_same":
        cur = state_of(m, spec).get((i, x))
        op = dict(op, op="assign", value=cur if cur is not None else op["value"])
        k = "assign"
    if k == "eval":
        val(cell_obj(m, spec, i), x)
    elif k in ("fail", "fail_caught"):
        probe.armed = {"nth": op["at"], "when": op["when"], "exc": UserErr}
        probe.catching = k == "fail_caught"
        val(cell_obj(m, spec, i), x)
        probe.armed = None
        probe.catching = False
    elif k == "assign" and truth.cached(i):
        held, inputs = held_elems(m, spec), input_elems(m, spec)
        cell_obj(m, spec, i)[x] = op["value"]
        if lazy_recalc:
            deps = truth.dependents(held, (i, x), inputs)
            for d in _leaves(truth, deps):
                val(cell_obj(m, spec, d[0]), d[1])
    elif k in ("clear_at", "del_value") and truth.cached(i):
        if (i, x) in held_elems(m, spec):
            cell_obj(m, spec, i).clear_at(x)
    elif k == "clear":
        cell_obj(m, spec, i).clear()
    elif k == "clear_all":
        cell_obj(m, spec, i).clear_all()
    elif k == "refchange":
        setattr({"r": m.A, "k": m.A.Ch, "g": m}[op["ref"]], op["ref"], op["value"])


def _recalc_twin_check(case, step, m, spec, truth, V, cnt):
    """recalc on: the state right after the assignment must equal the state of a twin model that ran the same
    history with the option off, querying the leaf dependents after each assignment"""
    live_state = state_of(m, spec)
    probe2 = Probe()
    mx.set_recalc(False)
    m.rename("M_live")
    try:
        m2 = build(spec, probe2)
        for op in case["ops"][: step + 1]:
            if op["op"] in ("nop", "recalc"):
                continue
            apply_plain(m2, spec, truth, probe2, op, True)
        twin_state = state_of(m2, spec)
        cnt["recalc_twin_checks"] += 1
        if twin_state != live_state:
            diff = sorted(set(twin_state.items()) ^ set(live_state.items()), key=repr)[:4]
            V("C06", "recalc", "with recalculation on, the state after an assignment differs from lazy recomputation",
              diff=[[list(k), v] for k, v in diff], step=step, op=case["ops"][step])
        m2.close()
    finally:
        m.rename("M")
        mx.set_recalc(True)


def _leaves(truth, deps):
    """dependents none of whose own dependents are in deps (recomputing them recomputes the rest)"""
    out = []
    for d in deps:
        if not any(d in truth.cached_preds(o)[0] for o in deps if o != d):
            out.append(d)
    return sorted(out)
