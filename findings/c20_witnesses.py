"""Minimal witnesses of the C20 mechanisms found by mxv/props/c20.py on the pinned tree.

Same conventions as findings/witnesses.py: each function builds the smallest case against the
real modelx and returns None when the property holds on it, or a string describing what was
observed.  `python findings/c20_witnesses.py [names...]` prints one line per mechanism.
"""
import importlib.util
import os
import shutil
import sys
import tempfile
import warnings

HERE = os.path.dirname(os.path.abspath(__file__))
sys.path.insert(0, os.path.dirname(HERE))
from mxv import env     # noqa: E402

mx = env.import_modelx()
warnings.simplefilter("ignore")


def _space():
    from mxv.mxutil import reset_session
    reset_session()
    return mx.new_model("M").new_space("A")


def _import(text):
    """function objects need a real file for inspect.getsource"""
    d = tempfile.mkdtemp(prefix="mxv_c20w_")
    path = os.path.join(d, "mxv_c20w_mod.py")
    with open(path, "w", encoding="utf-8") as f:
        f.write(text)
    spec = importlib.util.spec_from_file_location("mxv_c20w_mod", path)
    mod = importlib.util.module_from_spec(spec)
    spec.loader.exec_module(mod)
    return mod, d


def doc_concat():
    """replacing the doc of a def whose docstring is an implicit concatenation ("a" "b") replaces the first literal only"""
    A = _space()
    c = A.new_cells("f", formula='def f(x):\n    "a" "b"\n    return x\n')
    try:
        c.doc = "new"
    except Exception as e:     # noqa
        return "doc assignment raised %s" % type(e).__name__
    return None if c.doc == "new" and c(2) == 2 else "doc is %r after c.doc = 'new'" % c.doc


def doc_paren():
    """replacing the doc of a def whose docstring is parenthesised raises SyntaxError"""
    A = _space()
    c = A.new_cells("f", formula='def f(x):\n    ("doc")\n    return x\n')
    if c.doc != "doc":
        return None     # not taken as a docstring: nothing to replace
    try:
        c.doc = "new"
    except Exception as e:     # noqa
        return "doc assignment raised %s (source unchanged: %s)" % (
            type(e).__name__, c.formula.source == 'def f(x):\n    ("doc")\n    return x\n')
    return None if c.doc == "new" and c(2) == 2 else "doc is %r after c.doc = 'new'" % c.doc


def doc_line_ends():
    """a doc containing \\r, form feed, NEL or U+2028 reads back with these characters turned into \\n"""
    out = []
    for d in ("a\r\nb", "a\rb", "a\x0cb", "a\u2028b", "a\x85b"):
        A = _space()
        c = A.new_cells("f", formula="def f(x):\n    return x\n")
        try:
            c.doc = d
        except Exception as e:     # noqa
            out.append("%r: raised %s" % (d, type(e).__name__))
            continue
        if c.doc != d:
            out.append("%r -> %r" % (d, c.doc))
    return "; ".join(out) or None


def source_line_separators():
    """a def text with a form feed / U+2028 / NEL inside a string literal cannot be captured (str.splitlines)"""
    out = []
    for ch in ("\x0c", "\u2028", "\x85"):
        A = _space()
        text = "def f(x):\n    return len('a%sb') + x\n" % ch
        g = {}
        exec(text, g)       # noqa: S102   valid Python
        try:
            c = A.new_cells("f", formula=text)
            if c(1) != g["f"](1):
                out.append("%r: f(1) == %r, plain function %r" % (ch, c(1), g["f"](1)))
        except Exception as e:     # noqa
            out.append("%r: new_cells raised %s" % (ch, type(e).__name__))
    return "; ".join(out) or None


def indented_func_multiline_string():
    """a function object defined in an indented block loses that indentation inside its multi-line string literals"""
    mod, d = _import('if True:\n    def f(x):\n        s = """a\n        b"""\n        return len(s) + x\n')
    try:
        A = _space()
        try:
            c = A.new_cells("f", formula=mod.f)
        except Exception as e:     # noqa
            return "new_cells raised %s" % type(e).__name__
        return None if c(0) == mod.f(0) else "cells f(0) == %r, the function f(0) == %r" % (c(0), mod.f(0))
    finally:
        shutil.rmtree(d, ignore_errors=True)


def indented_func_column0_line():
    """a function object defined in an indented block with a column-0 comment (or string continuation) line is rejected"""
    out = []
    for label, text in (("comment", "if True:\n    def f(x):\n# note\n        return x\n"),
                        ("string", 'class H:\n    def f(x):\n        s = """a\nb"""\n        return len(s) + x\n')):
        mod, d = _import(text)
        try:
            fn = mod.f if hasattr(mod, "f") else mod.H.__dict__["f"]
            A = _space()
            try:
                c = A.new_cells("f", formula=fn)
                if c(1) != fn(1):
                    out.append("%s: f(1) == %r, the function %r" % (label, c(1), fn(1)))
            except Exception as e:     # noqa
                out.append("%s: new_cells raised %s" % (label, type(e).__name__))
        finally:
            shutil.rmtree(d, ignore_errors=True)
    return "; ".join(out) or None


ALL = [doc_concat, doc_paren, doc_line_ends, source_line_separators, indented_func_multiline_string,
       indented_func_column0_line]


if __name__ == "__main__":
    want = sys.argv[1:]
    bad = 0
    for fn in ALL:
        if want and fn.__name__ not in want:
            continue
        try:
            r = fn()
        except Exception as e:     # noqa
            import traceback
            r = "witness itself raised: " + traceback.format_exc().strip().splitlines()[-1]
        print("%-32s %-6s %s" % (fn.__name__, "FAILS" if r else "holds", r or fn.__doc__))
        bad += bool(r)
    sys.exit(1 if bad else 0)
