"""Minimal witnesses of the C10 deviations found by mxv/props/c10.py on the tree under test.

Same conventions as findings/witnesses.py: each function builds the smallest model / history that
exposes one mechanism against the real modelx and returns None when the property holds on it, or a
string describing what was observed.  `python findings/c10_witnesses.py [names...]` prints one line
per mechanism.
"""
import os
import sys
import warnings

HERE = os.path.dirname(os.path.abspath(__file__))
sys.path.insert(0, os.path.dirname(HERE))
from mxv import env     # noqa: E402

mx = env.import_modelx()
warnings.simplefilter("ignore")


def _reset():
    from mxv.mxutil import reset_session
    reset_session()
    return mx.new_model("M")


def _err(e):
    from modelx.core.errors import FormulaError
    if isinstance(e, FormulaError) and mx.get_error() is not None:
        e = mx.get_error()
    return "%s: %s" % (type(e).__name__, str(e)[:120])


# ------------------------------------------------------------------ C10-1
def prefix_named_outside_target():
    """DynBaseRefDict.wrap_impl tests `root == impl[:len(root)]` on the dotted names as *strings*: an
    outside target whose name merely starts with the base's name ('I_K' for base 'I') is taken to be
    inside the base tree and the rest of the string ('K') is looked up in the dynamic tree.
    signature: dynamic tree: auto-mode reference (defined in the mirrored space) to an object outside
    the base tree whose path has the base's path as a string prefix: expected the original object,
    got another object"""
    m = _reset()
    i = m.new_space("I")
    i.new_space("K")
    out = m.new_space("I_K")
    i.r = out                      # auto mode, the target is outside I's tree
    i.formula = lambda p: None
    try:
        got = i[1].r
    except Exception as e:     # noqa
        return "I[1].r raised %s" % _err(e)
    return None if got is out else "I[1].r is %r; the reference denotes the outside space %r" % (got, out)


def prefix_named_outside_target_raises():
    """same comparison, the rest of the string names nothing: the ItemSpace cannot be built at all
    (AttributeError: 'NoneType' object has no attribute 'interface')"""
    m = _reset()
    i = m.new_space("I")
    out = m.new_space("I2")
    i.r = out
    i.formula = lambda p: None
    try:
        got = i[1].r
    except Exception as e:     # noqa
        return "I[1] cannot be built: %s" % _err(e)
    return None if got is out else "I[1].r is %r, expected %r" % (got, out)


# ------------------------------------------------------------------ C10-2
def derived_reference_kept_static_in_dynamic_tree():
    """A reference that a sub space derives and that is bound absolutely there (its target lies outside
    the *definer's* tree) has is_relative False; wrap_impl then never maps it into a dynamic tree, although
    the target lies inside the ItemSpace's base tree.  The definer's own copy in the same dynamic tree is
    mapped.
    signature: dynamic tree: auto-mode reference (derived by the mirrored space, statically bound to the
    original object) to an object inside the base tree: expected the dynamic tree's counterpart, got the
    static object"""
    m = _reset()
    b = m.new_space("B")
    b.new_cells("tc", formula="lambda: 0")
    d = b.new_space("D")
    d.r = b.tc                     # auto; outside D's tree, inside B's tree
    s = b.new_space("S", bases=d)
    b.formula = lambda p: None
    it = b[1]
    if it.D.r is not it.tc:
        return "B[1].D.r is %r" % it.D.r
    return None if it.S.r is it.tc else \
        "B[1].S.r is %r (static) while B[1].D.r is %r; S derives r from D" % (it.S.r, it.D.r)


# ------------------------------------------------------------------ C10-3
def changed_reference_breaks_itemspace_of_enclosing_space():
    """change_ref: on_change_ref returns the *old* ReferenceImpl, so `ref.is_relative = is_relative` is
    lost and the re-created derived reference keeps the default is_relative=True although it is bound to
    an outside object; wrap_impl then reaches `value.direct_bases[0]` - an attribute ReferenceImpl does
    not have.
    signature: dynamic tree: instantiation raised AttributeError although every reference of the base
    tree has an object to be bound to"""
    m = _reset()
    z = m.new_space("Z")
    z.new_cells("c", formula="lambda: 1")
    x = m.new_space("X")
    x.t = z                        # auto, outside
    c = m.new_space("C")
    dd = c.new_space("DD", bases=x)
    x.t = z.c                      # change the existing reference; DD.t is re-created
    if dd.t is not z.c:
        return "DD.t is %r" % dd.t
    c.formula = lambda p: None
    try:
        got = c[1].DD.t
    except Exception as e:     # noqa
        return "C[1] cannot be built: %s" % _err(e)
    return None if got is z.c else "C[1].DD.t is %r" % got


# ------------------------------------------------------------------ C10-4
def derived_mode_stale_after_definer_switch():
    """ReferenceImpl.on_inherit never updates self.refmode: a derived reference that starts deriving from
    another base's definition keeps the mode (and hence the kind of binding) of the previous definition.
    signature: mode: derived reference declared auto is shown as absolute  (and: static derivation:
    auto-mode reference to a cells of the defining space: expected the deriving space's counterpart, got
    the original object)"""
    m = _reset()
    x = m.new_space("X")
    y = m.new_space("Y")
    x.new_cells("foo", formula="lambda: 1")
    y.new_cells("foo", formula="lambda: 2")
    x.absref(r=x.foo)
    y.r = y.foo                    # auto
    d = m.new_space("D", bases=[x, y])
    if d.r is not x.foo:
        return "D.r is %r before the edit" % d.r
    del x.r                        # D.r now derives from Y.r (auto, target = a cells of Y)
    mode = d._get_object("r", as_proxy=True).refmode
    if d.r is d.foo and mode == "auto":
        return None
    return "after del X.r: D.r is %r with refmode %r; a fresh D(X, Y) has D.foo / 'auto'" % (d.r, mode)


# ------------------------------------------------------------------ C10-5
def child_reference_stale_after_parent_base_removed():
    """add_bases / remove_bases re-derive the space and its subs only.  A reference of a *child* space that
    was bound relatively through the parents' inheritance (C(A), C.X(A.X), A.X.t = A.d => C.X.t is C.d) is
    not derived again when the parent stops deriving: it is left pointing at the deleted C.d.
    signature: static derivation: auto-mode reference to an object outside the defining space's tree:
    expected the original object, got a null object"""
    m = _reset()
    a = m.new_space("A")
    a.new_cells("d", formula="lambda: 1")
    ax = a.new_space("X")
    c = m.new_space("C", bases=a)
    cx = c.new_space("X", bases=ax)
    ax.t = a.d                     # auto; outside A.X's tree
    c.remove_bases(a)              # now nothing relates C to A: C.X.t has to be the original A.d
    got = cx.t
    if got is a.d:
        return None
    return "after C.remove_bases(A): C.X.t is %r (valid=%s); a fresh build has A.d" % (got, got._is_valid())


def child_reference_stale_after_base_deleted():
    """same mechanism through del_defined_space: deleting the space through which the parent derived
    re-derives the parent but not the references of its child spaces.
    signature: static derivation: auto-mode reference to an object outside the defining space's tree:
    expected the original object, got another object"""
    m = _reset()
    a = m.new_space("A")
    ak = a.new_space("K")
    mid = m.new_space("Mid", bases=a)
    b = m.new_space("B", bases=mid)
    bk = b.new_space("K", bases=ak)
    ak.t = a                       # auto; the parent of the definer: outside A.K's tree
    if bk.t is not b:
        return "B.K.t is %r before the edit (mapped through B <- Mid <- A expected)" % bk.t
    del m.Mid                      # B derives from nothing now: B.K.t has to be the original A
    got = bk.t
    return None if got is a else "after del Mid: B.K.t is %r; a fresh build has %r" % (got, a)


ALL = [child_reference_stale_after_base_deleted, child_reference_stale_after_parent_base_removed, prefix_named_outside_target, prefix_named_outside_target_raises,
       derived_reference_kept_static_in_dynamic_tree, changed_reference_breaks_itemspace_of_enclosing_space,
       derived_mode_stale_after_definer_switch]

if __name__ == "__main__":
    want = sys.argv[1:]
    for f in ALL:
        if want and f.__name__ not in want:
            continue
        try:
            r = f()
        except Exception as e:     # noqa
            r = "witness raised %s" % _err(e)
        print("%-55s %s" % (f.__name__, "holds" if r is None else "DEVIATES: " + r))


# ------------------------------------------------------------------ C10-6 (found by an independent mutation agent)
def nested_deriver_named_like_its_base():
    """SpaceGraph.get_relative let the shared trailing part of the two dotted names swallow the whole name of
    the base: a nested space A.B (or A.X.B) deriving from the top-level space B could not derive B's references
    to itself / its cells at all (RuntimeError: must not happen)"""
    out = []
    for depth in (1, 2):
        for mode in ("auto", "relative"):
            m = _reset()
            b = m.new_space("B")
            b.new_cells("c", formula="lambda x: x")
            b.set_ref("me", b, mode)
            b.set_ref("mc", b.c, mode)
            host = m.new_space("A")
            if depth == 2:
                host = host.new_space("X")
            try:
                d = host.new_space("B", bases=b)
            except Exception as e:     # noqa
                out.append("depth %d, %s: %s.new_space('B', bases=B) raised %s" % (depth, mode, host.fullname, _err(e)))
                continue
            if d.me is not d or d.mc is not d.c:
                out.append("depth %d, %s: references of the nested B are bound to %r %r" % (depth, mode, d.me, d.mc))
    return "; ".join(out) or None


# ------------------------------------------------------------------ C10-7 (from the mutant stress test: trees related at the top
# and at depth 2 only, the level in between unrelated)
def mirrored_tree_related_at_top_and_depth2():
    """A.C.G defines r -> its own cells (auto) and s -> itself (relative); B(A), B.C plain, B.C.G(A.C.G): the
    references of B.C.G denote B.C.G's own members.  t -> A.x and u -> A (targets outside A.C.G's tree) denote the
    originals once B no longer derives from A."""
    out = []
    m = _reset()
    a = m.new_space("A")
    a.new_cells("x", formula="lambda i: i")
    g = a.new_space("C").new_space("G")
    g.new_cells("x", formula="lambda i: 2 * i")
    g.set_ref("r", g.x, "auto")
    g.set_ref("s", g, "relative")
    g.set_ref("t", a.x, "auto")
    g.set_ref("u", a, "auto")
    b = m.new_space("B", bases=a)
    try:
        bg = b.new_space("C").new_space("G", bases=g)
    except Exception as e:     # noqa
        return "B.C.new_space('G', bases=A.C.G) raised %s" % _err(e)
    if bg.r is not bg.x:
        out.append("B.C.G.r is %r, expected B.C.G.x" % (bg.r,))
    if bg.s is not bg:
        out.append("B.C.G.s is %r, expected B.C.G" % (bg.s,))
    try:
        b.remove_bases(a)
    except Exception as e:     # noqa
        return "; ".join(out + ["B.remove_bases(A) raised %s" % _err(e)])
    if bg.t is not a.x:
        out.append("after B.remove_bases(A): B.C.G.t is %r, expected the original A.x" % (bg.t,))
    if bg.u is not a:
        out.append("after B.remove_bases(A): B.C.G.u is %r, expected the original A" % (bg.u,))
    if bg.r is not bg.x or bg.s is not bg:
        out.append("after B.remove_bases(A): r / s of B.C.G are %r / %r" % (bg.r, bg.s))
    return "; ".join(out) or None
