"""Minimal witnesses of the deviations from C04 (write/read round trip) met on the tree while
building mxv/props/c04.py.  Same conventions as findings/witnesses.py: each function builds the
smallest model that exposes one mechanism and returns None when the property holds on it, or a
string describing what was observed.  `python findings/c04_witnesses.py [names...]`.

The same models are the regression probes of the check (multi-case `d_probes` in mxv/c04_gen.py).
"""
import os
import shutil
import sys
import tempfile
import warnings

HERE = os.path.dirname(os.path.abspath(__file__))
sys.path.insert(0, os.path.dirname(HERE))
from mxv import env     # noqa: E402

mx = env.import_modelx()
warnings.simplefilter("ignore")


def _reset():
    from mxv.mxutil import reset_session
    reset_session()
    return mx.new_model("M")


def _roundtrip(m, zip_=False):
    d = tempfile.mkdtemp(prefix="mxv_w4_")
    try:
        p = os.path.join(d, "model")
        (m.zip if zip_ else m.write)(p)
        return mx.read_model(p, name="M2"), None
    except Exception as e:     # noqa
        return None, e
    finally:
        shutil.rmtree(d, ignore_errors=True)


def P():
    """C04-P refmode of non-object reference lost"""
    m = _reset()
    A = m.new_space("A")
    A.absref(x=1)
    m2, e = _roundtrip(m)
    if e:
        return "round trip raised %r" % e
    mode = m2.A._get_object("x", as_proxy=True).refmode
    return None if mode == "absolute" else "refmode of A.x reads back %r (was 'absolute')" % mode


def derived_input():
    """C04 input values of a derived cells are not written
    (SpaceEncoder builds a CellsEncoder for defined cells only, so `_data/<cells>` is never written for a derived one)"""
    m = _reset()
    A = m.new_space("A")
    A.new_cells("c", formula="def c(x):\n    return x")
    B = m.new_space("B", bases=A)
    B.c[1] = 50
    assert B.c._is_derived() and dict(B.c) == {1: 50}
    m2, e = _roundtrip(m)
    if e:
        return "round trip raised %r" % e
    return None if dict(m2.B.c) == {1: 50} else "B.c holds %r after write/read (was {1: 50}); B.c(1) == %r" % (
        dict(m2.B.c), m2.B.c(1))


def cr_in_doc():
    """C04 carriage returns in documentation text are read back as newlines
    (quote_docstring writes \\r raw into the source file; universal-newline reading turns it into \\n)"""
    m = _reset()
    m.doc = "a\r\nb\rc"
    S = m.new_space("S")
    S.doc = "x\ry"
    S.new_cells("lam", formula="lambda x: x").doc = "p\rq"
    m2, e = _roundtrip(m)
    if e:
        return "round trip raised %r" % e
    got = (m2.doc, m2.S.doc, m2.S.lam.doc)
    want = ("a\r\nb\rc", "x\ry", "p\rq")
    return None if got == want else "docs read back as %r (were %r)" % (got, want)


def divider_in_doc():
    """C04 a model whose documentation text contains a section-divider line cannot be read back
    (SourceStructure looks for the divider in raw lines, also inside the doc string literal)"""
    m = _reset()
    m.doc = "x\n# " + "-" * 75 + "\n# References\nmore"
    m.new_space("A")
    m2, e = _roundtrip(m)
    if e:
        return "written without error, read_model raised %s: %s" % (type(e).__name__, str(e)[:80])
    return None if m2.doc == m.doc else "doc read back as %r" % m2.doc


def def_surroundings():
    """C04 comment and blank lines before / after a def formula are not read back
    (FunctionDefParser takes atok.get_text(node): the text of the def statement only)"""
    m = _reset()
    A = m.new_space("A")
    srcs = {"c": "# leading comment\ndef c(x):\n    return x\n",
            "d": "def d(x):\n    return x\n    # after the last statement\n",
            "f": "def f(x):\n    return x\n\n"}
    for n, s in srcs.items():
        A.new_cells(n, formula=s)
    before = {n: A.cells[n].formula.source for n in srcs}
    m2, e = _roundtrip(m)
    if e:
        return "round trip raised %r" % e
    bad = {n: (before[n], m2.A.cells[n].formula.source) for n in srcs if m2.A.cells[n].formula.source != before[n]}
    return None if not bad else "formula source changed: %r" % bad


def crlf_blank_line():
    """C04 whitespace-only lines of a def formula captured from CRLF text are emptied when read back
    (capture from CRLF text keeps a line of blanks, re-capture of the written source empties it: the value of a
    multi-line string literal changes)"""
    m = _reset()
    A = m.new_space("A")
    A.new_cells("c", formula="def c(x):\r\n    s = \'\'\'p\r\n    \r\nq\'\'\'\r\n    return s\r\n")
    before = (A.c.formula.source, A.c(1))
    m2, e = _roundtrip(m)
    if e:
        return "round trip raised %r" % e
    after = (m2.A.c.formula.source, m2.A.c(1))
    return None if after == before else "source, c(1) = %r before and %r after write/read" % (before, after)


def sub_before_base():
    """C04 a model written without error cannot be read back: ValueError at model.new_ref
    (a sub space created before its base and overriding a reference of it: the reader restores B.w before C.w and
    new_ref refused to define a name in a base that a sub already defines)"""
    m = _reset()
    B = m.new_space("B")
    C = m.new_space("C")
    B.add_bases(C)
    C.w = 1
    B.w = 2
    m2, e = _roundtrip(m)
    if e:
        return "written without error, read_model raised %s: %s" % (type(e).__name__, str(e)[:80])
    return None if (m2.B.w, m2.C.w) == (2, 1) else "B.w, C.w == %r" % ((m2.B.w, m2.C.w),)


def dynmodule():
    """C04 a reference to a module that cannot be imported by name is written without error and cannot be read back
    (ModuleEncoder writes ("Module", name); reading imports the name)"""
    import types
    m = _reset()
    A = m.new_space("A")
    A.r = types.ModuleType("dyn")
    d = tempfile.mkdtemp(prefix="mxv_w4_")
    try:
        p = os.path.join(d, "model")
        try:
            m.write(p)
        except ValueError:
            return None                    # refused at write time: nothing promised, nothing written
        try:
            mx.read_model(p, name="M2")
        except Exception as e:     # noqa
            return "written without error, read_model raised %s" % type(e).__name__
        return None
    finally:
        shutil.rmtree(d, ignore_errors=True)


def relref_break():
    """C04 a model written without error cannot be read back: ValueError at model._check_subs_relrefs
    (_check_subs_relrefs stops at the first sub space that defines the name - `break` instead of `continue` - so a
    relative reference that has no counterpart in a later sub is accepted in one creation order and refused in the
    order the reader uses)"""
    m = _reset()
    Ba = m.new_space("Ba")
    Ch2 = Ba.new_space("Ch2")
    A1 = m.new_space("A1")
    Ch2.add_bases(A1)
    Ba.add_bases(A1)
    Ba.new_cells("c", formula="lambda x: -x")
    A1.new_cells("max", formula="lambda x: x")
    Ch2.absref(s=Ba.c)
    try:
        A1.relref(s=Ba.max)       # refused when Ba.Ch2 does not define `s` first
    except ValueError:
        return None
    m2, e = _roundtrip(m)
    if e:
        return "A1.relref(s=Ba.max) accepted, model written, read_model raised %s: %s" % (type(e).__name__, str(e)[:80])
    return None


def null_derived_ref():
    """C04 a derived reference that is a null object in the source (its target in a child space was created after the reference) is bound to that object after write/read
    (derivation of Ab.s2 -> Ab.Gc.max into Base happens when the reference is set; Base.Gc.max is created later and
    the derived reference stays a null object, whereas the reader creates cells before references)"""
    m = _reset()
    Ab = m.new_space("Ab")
    G = Ab.new_space("Gc")
    G.new_cells("max", formula="lambda x: x")
    Base = m.new_space("Base")
    BG = Base.new_space("Gc")
    Base.add_bases(Ab)
    Ab.s2 = G.max
    BG.new_cells("max", formula="lambda x: -x")
    before = Base.s2._is_valid()
    m2, e = _roundtrip(m)
    if e:
        return "round trip raised %r" % e
    after = m2.Base.s2._is_valid()
    return None if before == after else "Base.s2 is %s before and %s after write/read" % (
        "a live object" if before else "a null object", repr(m2.Base.s2) if after else "a null object")


def iospec_mode():
    """C04 refmode of an IOSpec-valued reference is read back as a number
    (RefAssignParser treats every 3-tuple as ("Interface", id, refmode); for ("IOSpec", value_id, spec_id) the
    third element is the spec id, which becomes the refmode of the reference)"""
    import pandas as pd
    m = _reset()
    A = m.new_space("A")
    A.new_pandas("io1", "files/io1.csv", pd.Series([1, 2, 3], name="s"), file_type="csv")
    before = A._get_object("io1", as_proxy=True).refmode
    m2, e = _roundtrip(m)
    if e:
        return "round trip raised %r" % e
    after = m2.A._get_object("io1", as_proxy=True).refmode
    return None if after == before else "refmode of A.io1 reads back %r (was %r)" % (after, before)


ALL = [P, derived_input, cr_in_doc, divider_in_doc, def_surroundings, crlf_blank_line, iospec_mode, sub_before_base, dynmodule, relref_break, null_derived_ref]


if __name__ == "__main__":
    want = sys.argv[1:]
    bad = 0
    for fn in ALL:
        if want and fn.__name__ not in want:
            continue
        try:
            r = fn()
        except Exception as e:     # noqa
            import traceback
            r = "witness itself raised: " + traceback.format_exc().strip().splitlines()[-1]
        print("%-18s %-6s %s" % (fn.__name__, "FAILS" if r else "holds", r or fn.__doc__.splitlines()[0]))
        bad += bool(r)
    sys.exit(1 if bad else 0)
