"""Minimal witnesses of the deviation mechanisms found on the pinned tree.

Each function builds the smallest model/history that exposes one mechanism
against the real modelx and returns None when the property holds on it, or a
string describing what was observed.  `python findings/witnesses.py [ids...]`
prints one line per mechanism.  The property checks import these as directed
cases (regression probes), so a repaired mechanism is re-tested on every run.
"""
import os
import shutil
import sys
import tempfile
import warnings

HERE = os.path.dirname(os.path.abspath(__file__))
sys.path.insert(0, os.path.dirname(HERE))
from mxv import env     # noqa: E402

mx = env.import_modelx()
warnings.simplefilter("ignore")


def _reset():
    from mxv.mxutil import reset_session
    reset_session()
    return mx.new_model("M")


def _snap(m):
    from mxv.mxutil import snap_model
    return snap_model(m)


# ------------------------------------------------------------------ C11 / C12
def A():
    """add_bases accepts a base whose cells name is a reference name in the sub"""
    m = _reset()
    B, X = m.new_space("B"), m.new_space("X")
    B.x = 5
    X.new_cells("x", formula="lambda: 1")
    try:
        B.add_bases(X)
    except Exception:     # noqa
        return None
    dup = set(B.cells) & set(B._own_refs)
    return "name %s is both cells and reference in B" % sorted(dup) if dup else None


def F():
    """_can_add inspects only the first sub space that has the name"""
    m = _reset()
    S1 = m.new_space("S1")
    S3 = m.new_space("S3", bases=S1)
    S2 = m.new_space("S2", bases=S1)
    S3.new_cells("m1", formula="lambda: 3")
    S2.m1 = 7
    try:
        S1.new_cells("m1", formula="lambda: 1")
    except Exception:     # noqa
        return None
    dup = set(S2.cells) & set(S2._own_refs)
    return "name %s is both cells and reference in S2" % sorted(dup) if dup else None


def G():
    """remove_bases re-derives subs in edge order, not topological order"""
    m = _reset()
    S = [m.new_space("S%d" % i) for i in range(4)]
    S[1].new_cells("m2", formula="lambda: 1")
    S[3].add_bases(S[2])
    S[3].add_bases(S[0])
    S[2].add_bases(S[0])
    S[0].add_bases(S[1])
    before = _snap(m)
    try:
        S[0].remove_bases(S[1])
    except Exception as e:     # noqa
        after = _snap(m)
        return "remove_bases raised %s and %s" % (
            type(e).__name__, "changed the model" if after != before else "left the model unchanged")
    for s in (S[0], S[2], S[3]):
        if "m2" in s.cells:
            return "derived m2 left in %s" % s.name
    return None


def I():
    """UserSpace.rename accepts invalid identifiers"""
    m = _reset()
    X = m.new_space("X")
    bad = []
    for n in ("1a", "_x", "for", ""):
        try:
            X.rename(n)
            bad.append(n)
        except Exception:     # noqa
            pass
    return "space renamed to invalid names %r" % bad if bad else None


def J():
    """a rejected formula assignment destroys the inputs of the cells"""
    m = _reset()
    A_ = m.new_space("A")
    A_.new_cells("a", formula="def a(x):\n    return x")
    A_.a[7] = 70
    try:
        A_.a.formula = "def a(x) return"
    except SyntaxError:
        pass
    else:
        return "malformed formula accepted"
    return None if dict(A_.a) == {7: 70} else "input lost: %r" % dict(A_.a)


def K():
    """new_cells with a malformed formula leaves a half-constructed cells behind"""
    m = _reset()
    A_ = m.new_space("A")
    try:
        A_.new_cells("nw", formula="def nw(x) return")
    except SyntaxError:
        pass
    else:
        return "malformed formula accepted"
    return "cells 'nw' registered by a rejected new_cells" if "nw" in A_.cells else None


def L():
    """assigning an invalid space formula deletes the old one first"""
    m = _reset()
    S = m.new_space("I", formula="lambda p: None")
    try:
        S.formula = "3"
    except Exception:     # noqa
        pass
    else:
        return "invalid space formula accepted"
    return "old space formula gone after a rejected assignment" if S.formula is None else None


def T():
    """a model-level reference to a modelx object makes the library's self check fail"""
    m = _reset()
    S = m.new_space("S")
    m.r = S
    try:
        mx.core.mxsys._check_sanity()
    except AssertionError:
        return "_check_sanity fails after `model.r = space`"
    return None


def U():
    """deleting a space: subs re-derived in edge order; subs of its child spaces not re-derived at all"""
    out = []
    m = _reset()
    S = [m.new_space("S%d" % i) for i in range(4)]
    S[1].new_cells("m2", formula="lambda: 1")
    S[3].add_bases(S[2])
    S[3].add_bases(S[0])
    S[2].add_bases(S[0])
    S[0].add_bases(S[1])
    try:
        del m.S1
        left = [s.name for s in (S[0], S[2], S[3]) if "m2" in s.cells]
        if left:
            out.append("derived m2 left in %s after deleting its definer" % left)
    except Exception as e:     # noqa
        out.append("del model.S1 raised %s" % type(e).__name__)
    m = _reset()
    X = m.new_space("X")
    Ch = X.new_space("Ch")
    Ch.new_cells("cc", formula="lambda: 1")
    Ch.r = 3
    Y = m.new_space("Y", bases=Ch)
    del m.X
    if list(Y.cells) or list(Y._own_refs):
        out.append("Y keeps derived %s %s after its base X.Ch was deleted with X" % (list(Y.cells), list(Y._own_refs)))
    return "; ".join(out) or None


def Z():
    """the library's self-check fails on a model with same-named spaces at different levels"""
    m = _reset()
    B_ = m.new_space("B")
    B_.new_space("Ch")
    B_.new_space("Gc").new_space("Ch")
    try:
        mx.core.mxsys._check_sanity()
    except AssertionError:
        return "_check_sanity fails for B.Ch + B.Gc.Ch"
    return None


def EE():
    """assigning None where it is not allowed destroys the existing input"""
    m = _reset()
    A_ = m.new_space("A")
    A_.new_cells("a", formula="def a(x):\n    return x")
    A_.a[1] = 200
    try:
        A_.a[1] = None
    except Exception:     # noqa
        pass
    else:
        return "None accepted"
    return None if dict(A_.a) == {1: 200} else "input lost: %r" % dict(A_.a)


def FF():
    """add_bases refused for a relative reference out of scope leaves derived members behind"""
    m = _reset()
    A_, Z_, X_ = m.new_space("A"), m.new_space("Z"), m.new_space("X")
    A_.new_cells("c", formula="lambda x: x")
    A_.set_ref("r", Z_, "relative")
    before = _snap(m)
    try:
        X_.add_bases(A_)
    except Exception:     # noqa
        after = _snap(m)
        if after != before:
            return "rejected add_bases left X with cells %s refs %s" % (list(X_.cells), list(X_._own_refs))
    return None


def LL():
    """new_space(bases=[A, B]) accepts bases that use one name for a cells and for a reference"""
    m = _reset()
    A_, B_ = m.new_space("A"), m.new_space("B")
    A_.new_cells("x", formula="lambda i: 1")
    B_.x = 5
    try:
        C_ = m.new_space("C", bases=[A_, B_])
    except Exception:     # noqa
        return None
    if "x" in C_.cells and "x" in C_._own_refs:
        return "C(A, B) has a cells and a reference named x"
    return None


def MM():
    """new_cells without a name takes the formula's name unchecked: cells named like a reference of the space"""
    m = _reset()
    S = m.new_space("S")
    S.x = 1
    try:
        S.new_cells(formula="def x(i):\n    return i")
    except Exception:     # noqa
        return None
    if "x" in S.cells and "x" in S._own_refs:
        return "S has a cells and a reference named x"
    return None


def RR():
    """add_bases refused for a relative reference out of scope discards input values of derived cells in sub spaces"""
    m = _reset()
    A_ = m.new_space("A")
    A_.new_cells("foo", formula="lambda x: x")
    B_ = m.new_space("B", bases=A_)
    B_.foo[1] = 100
    Z_, O_ = m.new_space("Z"), m.new_space("O")
    Z_.set_ref("r", O_, "relative")
    try:
        A_.add_bases(Z_)
    except Exception:     # noqa
        if dict(B_.foo) != {1: 100}:
            return "refused add_bases left B.foo holding %r (was {1: 100})" % (dict(B_.foo),)
    return None


def SS():
    """set_ref(relative) refused in a sub space that would take the name over from a later base leaves the reference"""
    m = _reset()
    A_, U_, Z_ = m.new_space("A"), m.new_space("U"), m.new_space("Z")
    U_.q = 1
    m.new_space("T", bases=[A_, U_])
    try:
        A_.set_ref("q", Z_, "relative")
    except Exception:     # noqa
        if "q" in A_._own_refs:
            return "refused set_ref left A.q behind"
    return None


def TT():
    """del of a derived reference is refused only after it was deleted and re-derived: inputs of the space are gone"""
    m = _reset()
    A_ = m.new_space("A")
    A_.new_cells("foo", formula="lambda x: x + r")
    A_.r = 1
    B_ = m.new_space("B", bases=A_)
    B_.foo[1] = 100
    try:
        del B_.r
    except Exception:     # noqa
        if dict(B_.foo) != {1: 100}:
            return "refused `del B.r` (derived) left B.foo holding %r (was {1: 100})" % (dict(B_.foo),)
        return None
    return "`del B.r` of a derived reference was accepted"


def UU():
    """a derived reference re-bound in place (the next base takes over) keeps values reading it by attribute path"""
    m = _reset()
    B1, B2 = m.new_space("Base1"), m.new_space("Base2")
    B1.x, B2.x = 1, 2
    Bs = m.new_space("B", bases=[B1, B2])
    A_ = m.new_space("A")
    A_.new_cells("foo", formula="lambda: _model.B.x")
    if A_.foo() != 1:
        return "A.foo() == %r before the edit" % (A_.foo(),)
    Bs.remove_bases(B1)
    if Bs.x != 2 or A_.foo() != 2:
        return "after B.remove_bases(Base1): B.x == %r, A.foo() == %r (expected 2, 2)" % (Bs.x, A_.foo())
    return None


def VV():
    """an automatically named cells takes a name a sub space uses for a child space"""
    m = _reset()
    A_ = m.new_space("A")
    S = m.new_space("S", bases=A_)
    S.new_space("Cells1")
    c = A_.new_cells(formula="lambda x: x")
    if c.name in S.cells and c.name in S.spaces:
        return "A.new_cells() was named %s: S has a child space and a derived cells of that name" % c.name
    return None


def WW():
    """remove_bases refused because a descendant loses its C3 order (detected while deriving) changes nothing"""
    m = _reset()
    n0, n1 = m.new_space("n0"), m.new_space("n1")
    n0.new_cells("p", formula="lambda x: k * x")
    n0.k = 10
    n1.new_cells("q", formula="lambda x: x + 1")
    n2 = m.new_space("n2", bases=[n0, n1])
    n2.new_cells("r", formula="lambda x: p(x) + q(x)")
    n3 = m.new_space("n3", bases=[n2, n0])
    m.new_space("n4", bases=[n3, n0, n1])
    before = _snap(m)
    try:
        n2.remove_bases(n0)
    except Exception:     # noqa
        after = _snap(m)
        if after != before:
            return "refused n2.remove_bases(n0) left n2 with bases %s and cells %s" % (
                [b.name for b in n2.bases], list(n2.cells))
        try:
            if n2.r(2) != 23:
                return "n2.r(2) == %r after the refused remove_bases" % (n2.r(2),)
        except Exception as e:     # noqa
            return "n2.r(2) raises %s after the refused remove_bases" % type(e).__name__
    return None


# ------------------------------------------------------------------ C03
def B():
    """redefining a base cells overwrites copies deriving from an override in between"""
    m = _reset()
    Bs = m.new_space("B")
    S = m.new_space("S", bases=Bs)
    T_ = m.new_space("T", bases=S)
    Bs.new_cells("c", formula="lambda: 1")
    S.c.formula = "lambda: 2"
    Bs.c.formula = "lambda: 3"
    out = []
    if T_.c() != 2:
        out.append("T.c() == %r, expected S's override 2" % T_.c())
    # (2) defined overrides whose nearest defined base is another override
    m = _reset()
    S1 = m.new_space("S1")
    S2 = m.new_space("S2", bases=S1)
    S0 = m.new_space("S0", bases=S2)
    S1.new_cells("m1", formula="lambda: 1")
    S2.m1.formula = "lambda: 2"
    S0.m1.formula = "lambda: 0"
    S1.m1.formula = "lambda: 11"
    if S0.m1() != 0 or S2.m1() != 2:
        out.append("override overwritten: S0.m1()=%r S2.m1()=%r" % (S0.m1(), S2.m1()))
    return "; ".join(out) or None


def D():
    """a cells newly defined in a nearer base is ignored by subs deriving the name from a farther base"""
    m = _reset()
    S1, S2, S3 = m.new_space("S1"), m.new_space("S2"), m.new_space("S3")
    S0 = m.new_space("S0", bases=[S1, S2, S3])
    S3.new_cells("m1", formula="lambda: 3")
    S2.new_cells("m1", formula="lambda: 2")
    return None if S0.m1() == 2 else "S0.m1() == %r, expected 2 (S2 precedes S3)" % S0.m1()


def E():
    """new_ref/change_ref stop at the first sub with its own definition"""
    m = _reset()
    S1 = m.new_space("S1")
    S0 = m.new_space("S0", bases=S1)
    S2 = m.new_space("S2", bases=S1)
    S1.m2 = 9
    S0.m2 = 13
    S1.m2 = 14
    return None if S2.m2 == 14 else "S2.m2 == %r after S1.m2 = 14" % S2.m2


def II():
    """defining a derived cells in the middle of a chain leaves subs with properties of their former base"""
    out = []
    m = _reset()
    S0, S1 = m.new_space("S0"), m.new_space("S1")
    S2 = m.new_space("S2", bases=S0)
    S3 = m.new_space("S3", bases=[S2, S1, S0])
    S0.new_cells("c1", formula="lambda x: x + 1")
    S1.new_cells("c1", formula="lambda x: x + 2", is_cached=False)
    S2.c1.formula = "lambda x: x + 8"
    if S3.c1.is_cached is not True or S3.c1(0) != 8:
        out.append("after S2.c1.formula = ...: S3.c1 is_cached=%r value=%r (S2.c1 is cached)" % (S3.c1.is_cached, S3.c1(0)))
    m = _reset()
    T0, T1 = m.new_space("T0"), m.new_space("T1")
    T2 = m.new_space("T2", bases=T0)
    T3 = m.new_space("T3", bases=[T2, T1, T0])
    T0.new_cells("c2", formula="lambda x: x + 2", is_cached=False)
    T1.new_cells("c2", formula="def c2(x):\n    return x + 4")
    T2.c2.is_cached = True
    if T3.c2(0) != 2:
        out.append("after T2.c2.is_cached = True: T3.c2(0) == %r (T2.c2 is now its nearest defined base: 2)" % T3.c2(0))
    return "; ".join(out) or None


# ------------------------------------------------------------------ C02 / C09 / C13 / C07
def a():
    """a space-level reference starting to shadow a model-level one read by attribute path"""
    m = _reset()
    m.g = 1
    P = m.new_space("P")
    Ch = P.new_space("Ch")
    P.new_cells("a", formula="def a(x):\n    return Ch.g + x")
    P.a(1)
    Ch.g = 100
    return None if P.a(1) == 101 else "P.a(1) == %r after Ch.g = 100" % P.a(1)


def b():
    """a reference read by attribute path inside an uncached cells"""
    m = _reset()
    R, R2 = m.new_space("R"), m.new_space("R2")
    R2.s = 1
    R.new_cells("u", formula="def u(x):\n    return _model.R2.s + x", is_cached=False)
    R.new_cells("c", formula="def c(x):\n    return u(x) * 2")
    R.c(1)
    R2.s = 2
    return None if R.c(1) == 6 else "R.c(1) == %r after R2.s = 2" % R.c(1)


def c():
    """deleting / renaming a space leaves values that read its references by attribute path"""
    out = []
    for how in ("rename", "del"):
        m = _reset()
        P = m.new_space("P")
        Ch = P.new_space("Ch")
        Ch.r = 3
        T_ = m.new_space("T")
        T_.new_cells("c", formula="def c(x):\n    return _model.P.Ch.r + x")
        T_.c(1)
        if how == "rename":
            Ch.rename("Ch2")
        else:
            del P.Ch
        try:
            v = T_.c(1)
            out.append("after %s of P.Ch, T.c(1) still returns %r" % (how, v))
        except Exception:    # noqa
            pass
    return "; ".join(out) or None


def H():
    """deleting a cells of a child space of a parametrised space keeps the ItemSpaces"""
    m = _reset()
    S = m.new_space("I", formula="lambda p: None")
    Ch = S.new_space("Ch")
    Ch.new_cells("icc", formula="def icc(x):\n    return p * 10 + x")
    S[1].Ch.icc(1)
    del Ch.icc
    try:
        v = S[1].Ch.icc(1)
    except Exception:    # noqa
        return None
    return "I[1].Ch.icc(1) still answers %r after `del I.Ch.icc`" % v


def W():
    """allow_none of a cells / child space is not carried into ItemSpaces"""
    m = _reset()
    A_ = m.new_space("A", formula="lambda p: None")
    A_.new_cells("c", formula="def c(x):\n    return None if x == 1 else x")
    A_.c.allow_none = True
    Ch = A_.new_space("Ch")
    Ch.allow_none = True
    Ch.new_cells("d", formula="def d(x):\n    return None")
    out = []
    for what, fn in (("A[1].c(1)", lambda: A_[1].c(1)), ("A[1].Ch.d(1)", lambda: A_[1].Ch.d(1))):
        try:
            if fn() is not None:
                out.append("%s is not None" % what)
        except Exception as e:     # noqa
            out.append("%s raised %s although the base returns None" % (what, type(mx.get_error()).__name__))
    return "; ".join(out) or None


def X():
    """allow_none set on a base cells / space after derivation or instantiation is not passed on"""
    m = _reset()
    A_ = m.new_space("A", formula="lambda p: None")
    A_.new_cells("c", formula="def c(x):\n    return None if x == 1 else x")
    B_ = m.new_space("B", bases=A_)
    inst = A_[1]
    A_.c.allow_none = True
    out = []
    for what, fn in (("B.c(1)", lambda: B_.c(1)), ("A[1].c(1)", lambda: A_[1].c(1))):
        try:
            if fn() is not None:
                out.append("%s is not None" % what)
        except Exception as e:     # noqa
            out.append("%s raised %s although A.c(1) returns None" % (what, type(mx.get_error()).__name__))
    return "; ".join(out) or None


def V():
    """a reference change in a space does not clear cached callers (in other spaces) of its uncached cells"""
    m = _reset()
    A_, B_ = m.new_space("A"), m.new_space("B")
    A_.x = 1
    A_.new_cells("u", formula="def u(i):\n    return x * 10 + i", is_cached=False)
    B_.new_cells("c", formula="def c(i):\n    return _model.A.u(i)")
    B_.c(1)
    A_.x = 2
    return None if B_.c(1) == 21 else "B.c(1) == %r after A.x = 2" % B_.c(1)


def Y():
    """creating / deleting a reference in a child space of a parametrised space keeps the live ItemSpaces"""
    m = _reset()
    m.g = 2
    A_ = m.new_space("A", formula="lambda p: None")
    Ch = A_.new_space("Ch")
    Ch.s = 7
    Ch.new_cells("f", formula="def f(x):\n    return _space.s + g + x")
    A_[1].Ch.f(0)
    out = []
    Ch.g = 70
    try:
        v = A_[1].Ch.f(0)
        if v != 77:
            out.append("A[1].Ch.f(0) == %r after Ch.g = 70" % v)
    except Exception:     # noqa
        out.append("A[1].Ch.f(0) raises %s after Ch.g = 70" % type(mx.get_error()).__name__)
    del Ch.s
    try:
        out.append("A[1].Ch.f(0) still returns %r after `del Ch.s`" % A_[1].Ch.f(0))
    except Exception:     # noqa
        pass
    return "; ".join(out) or None


def AA():
    """an input assigned after its element was cleared by a reference change is wiped by a later reference change"""
    m = _reset()
    B_ = m.new_space("B")
    Ch = B_.new_space("Ch")
    Ch.t = 5
    B_.t = 9
    B_.new_cells("c0", formula="def c0(x):\n    return _model.B.t + x")
    B_.new_cells("c4", formula="def c4(x):\n    return Ch.t + c0(x)")
    B_.c4(0)
    del B_.t
    B_.c4[0] = 124
    Ch.t = 29
    return None if dict(B_.c4) == {0: 124} else "input B.c4[0] lost: %r" % dict(B_.c4)


def BB():
    """deleting a space keeps values computed through its uncached cells"""
    m = _reset()
    D_, T_ = m.new_space("D"), m.new_space("T")
    D_.w = 7
    D_.new_cells("bc", formula="def bc(x):\n    return x + w", is_cached=False)
    T_.new_cells("tb", formula="def tb(x):\n    return _model.D.bc(x)")
    T_.tb(1)
    del m.D
    try:
        return "T.tb(1) still returns %r after `del model.D`" % T_.tb(1)
    except Exception:     # noqa
        return None


def CC():
    """renaming a space keeps values computed through uncached cells of its tree"""
    m = _reset()
    B_ = m.new_space("B")
    Ch = B_.new_space("Ch")
    Gc = Ch.new_space("Gc")
    Gc.new_cells("d0", formula="def d0(x):\n    return x", is_cached=False)
    B_.new_cells("c5", formula="def c5(x):\n    return Ch.Gc.d0(x) + 10")
    B_.c5(1)
    Ch.rename("Ch2")
    try:
        return "B.c5(1) still returns %r after renaming B.Ch" % B_.c5(1)
    except Exception:     # noqa
        return None


def DD():
    """deleting a parametrised space leaves its ItemSpaces alive; renaming a base keeps instances built from it"""
    out = []
    m = _reset()
    A_ = m.new_space("A", formula="lambda p: None")
    A_.new_cells("c", formula="lambda x: p + x")
    inst = A_[1]
    cc = inst.c
    cc(1)
    del m.A
    for what, fn in (("instance handle", lambda: inst.cells), ("dynamic cells handle", lambda: cc(2))):
        try:
            fn()
            out.append("%s still answers after `del model.A`" % what)
        except Exception:     # noqa
            pass
    m = _reset()
    B_ = m.new_space("B")
    B_.new_cells("c", formula="lambda x: x + 10")
    PB = m.new_space("PB", formula="lambda p: {'base': _model.B}")
    PB[1].c(0)
    B_.rename("B2")
    try:
        out.append("PB[1].c(0) still returns %r after renaming its base B" % PB[1].c(0))
    except Exception:     # noqa
        pass
    return "; ".join(out) or None


def GG():
    """renaming a cells in a base silently replaces a sub space's own cells of the new name"""
    m = _reset()
    A_ = m.new_space("A")
    A_.new_cells("foo", formula="lambda: 1")
    B_ = m.new_space("B", bases=A_)
    B_.new_cells("bar", formula="lambda: 2")
    try:
        A_.foo.rename("bar")
    except ValueError:
        return None
    return None if B_.bar() == 2 else "B.bar() == %r after A.foo.rename('bar'): B lost its own cells" % B_.bar()


def HH():
    """changing the formula of a child space of a parametrised space keeps the stale dynamic tree"""
    m = _reset()
    A_ = m.new_space("A", formula="lambda p: None")
    Ch = A_.new_space("Ch", formula="lambda n: None")
    Ch.new_cells("d", formula="lambda x: p * 100 + n * 10 + x")
    A_[1].Ch[2].d(3)
    Ch.formula = "lambda n, k=5: {'refs': {'z': 1}}"
    try:
        return None if A_[1].Ch[2].z == 1 else "A[1].Ch[2].z == %r" % A_[1].Ch[2].z
    except Exception as e:     # noqa
        return "A[1].Ch[2].z raises %s after Ch.formula was replaced" % type(e).__name__


def JJ():
    """renaming a cells in a base: own overriding cells of subs renamed too; farther definer not uncovered"""
    out = []
    m = _reset()
    A_, B_ = m.new_space("A"), m.new_space("B")
    A_.new_cells("c2", formula="lambda x: x + 100")
    B_.new_cells("c2", formula="lambda x: x + 1")
    C_ = m.new_space("C", bases=[B_, A_])
    B_.c2.rename("zz1")
    if "c2" not in C_.cells or C_.c2(0) != 100:
        out.append("after B.c2.rename: C has %s (expected c2 derived from A and zz1)" % sorted(C_.cells))
    m = _reset()
    A1, Ba = m.new_space("A1"), m.new_space("Ba")
    A1.new_cells("s_", formula="lambda: 1")
    Ba.new_cells("s_", formula="lambda: 2")
    X_ = m.new_space("X", bases=[Ba, A1])
    X_.s_.formula = "lambda: 3"
    A1.s_.rename("ren")
    if "s_" not in X_.cells or X_.s_() != 3:
        out.append("after A1.s_.rename: X has %s (its own s_ must stay)" % sorted(X_.cells))
    return "; ".join(out) or None


def KK():
    """deleting an override in a base leaves ItemSpaces built from a sub space with the old formula"""
    m = _reset()
    P_ = m.new_space("P")
    P_.new_cells("c5", formula="lambda x: 1")
    Q_ = m.new_space("Q", bases=P_)
    Q_.c5.formula = "lambda x: 5"
    m.new_space("R", bases=[Q_, P_])
    PB = m.new_space("PB", formula="lambda p: {'base': _model.R}")
    PB[1].c5(0)
    del Q_.c5
    v = PB[1].c5(0)
    return None if v == 1 else "PB[1].c5(0) == %r after `del Q.c5` (R.c5 derives from P again: 1)" % v


# ------------------------------------------------------------------ C15
def M():
    """export: comprehension following a nested class scope"""
    import subprocess
    m = _reset()
    A_ = m.new_space("A")
    A_.new_cells("c0", formula="def c0(x):\n    return x + 1")
    A_.new_cells("c1", formula="def c1(x):\n    class K:\n        w = 3\n    return K.w + sum([c0(i) for i in range(x)])")
    want = A_.c1(3)
    d = tempfile.mkdtemp(prefix="mxv_wM_")
    try:
        m.export(os.path.join(d, "M_nomx"))
        code = ("import sys; sys.path.insert(0, %r); from M_nomx import mx_model; "
                "print(mx_model.A.c1(3))" % d)
        p = subprocess.run([sys.executable, "-c", code], stdout=subprocess.PIPE, stderr=subprocess.PIPE)
        got = p.stdout.decode().strip()
        if got != str(want):
            return "exported A.c1(3) gives %r (%s), model gives %r" % (
                got, p.stderr.decode().strip().splitlines()[-1:] , want)
    finally:
        shutil.rmtree(d, ignore_errors=True)
    return None


# ------------------------------------------------------------------ C17
def N():
    """nodes of a failure that a formula handled leak into the next traceback"""
    m = _reset()
    A_ = m.new_space("A")
    A_.new_cells("bad", formula="def bad(x):\n    raise IndexError('always')")
    A_.new_cells("catcher", formula="def catcher(x):\n    try:\n        bad(x)\n    except IndexError:\n        pass\n    return x")
    A_.new_cells("bad2", formula="def bad2(x):\n    raise ValueError('v')")
    A_.new_cells("top", formula="def top(x):\n    return bad2(x)")
    A_.catcher(1)
    try:
        A_.top(5)
    except Exception:    # noqa
        pass
    tb = [repr(n) for n, _ in mx.get_traceback()]
    want = [repr(A_.top.node(5)), repr(A_.bad2.node(5))]
    return None if tb == want else "traceback %r, expected %r" % (tb, want)


# ------------------------------------------------------------------ C04 / C20
def _roundtrip(m, zip_=False):
    d = tempfile.mkdtemp(prefix="mxv_w_")
    try:
        p = os.path.join(d, "model")
        (m.zip if zip_ else m.write)(p)
        return mx.read_model(p, name="M2"), None
    except Exception as e:     # noqa
        return None, e
    finally:
        shutil.rmtree(d, ignore_errors=True)


def O():
    """the uncached flag of a lambda-defined cells is lost on write/read"""
    m = _reset()
    A_ = m.new_space("A")
    A_.new_cells("lam", formula="lambda x: x", is_cached=False)
    m2, e = _roundtrip(m)
    if e:
        return "round trip raised %r" % e
    return None if m2.A.lam.is_cached is False else "is_cached of lambda cells reads back True"


def P():
    """the mode of a non-object reference is lost on write/read"""
    m = _reset()
    A_ = m.new_space("A")
    A_.absref(x=1)
    A_.relref(y=2) if False else None
    m2, e = _roundtrip(m)
    if e:
        return "round trip raised %r" % e
    mode = m2.A._get_object("x", as_proxy=True).refmode
    return None if mode == "absolute" else "refmode of A.x reads back %r (was 'absolute')" % mode


def Q():
    """doc strings are emitted unescaped between triple quotes"""
    out = []
    m = _reset()
    m.doc = 'ends with "'
    m.new_space("A")
    m2, e = _roundtrip(m)
    if e:
        out.append("model doc ending in a quote: written model unreadable (%s)" % type(e).__name__)
    elif m2.doc != 'ends with "':
        out.append("model doc read back as %r" % m2.doc)
    m = _reset()
    A_ = m.new_space("A")
    A_.new_cells("f", formula="def f(x):\n    return x")
    try:
        A_.f.doc = 'ends "'
        if A_.f.doc != 'ends "' or A_.f(2) != 2:
            out.append("cells doc is %r" % A_.f.doc)
    except Exception as e:     # noqa
        out.append("cells.doc = 'ends \"' raised %s" % type(e).__name__)
    return "; ".join(out) or None


def R():
    """replacing the doc of a one-line def produces invalid source"""
    m = _reset()
    A_ = m.new_space("A")
    A_.new_cells("f", formula="def f(x): return x")
    try:
        A_.f.doc = "d"
    except Exception as e:     # noqa
        return "doc assignment on a one-line def raised %s" % type(e).__name__
    if A_.f.doc != "d" or A_.f(3) != 3:
        return "doc=%r f(3)=%r" % (A_.f.doc, A_.f(3))
    return None


ALL = [A, F, G, U, I, J, K, L, EE, FF, T, Z, B, D, E, II, a, b, c, H, W, X, V, Y, AA, BB, CC, DD, GG, HH, JJ, KK, M, N, O, P, Q, R]


if __name__ == "__main__":
    want = sys.argv[1:]
    bad = 0
    for fn in ALL:
        if want and fn.__name__ not in want:
            continue
        try:
            r = fn()
        except Exception as e:     # noqa
            import traceback
            r = "witness itself raised: " + traceback.format_exc().strip().splitlines()[-1]
        print("%-2s %-6s %s" % (fn.__name__, "FAILS" if r else "holds", r or fn.__doc__))
        bad += bool(r)
    sys.exit(1 if bad else 0)
