"""Minimal witnesses of the C02 mechanism listed in known_findings.json: a dependency that exists only through a
callee whose failure the formula handled.  `python findings/c02_witnesses.py` prints one line per source kind;
each function returns None when the live model agrees with the model that only received the edits, or a string
describing what was observed.  The probe that decides it in the check is mxv/c02_handled.py.
"""
import os
import sys

HERE = os.path.dirname(os.path.abspath(__file__))
sys.path.insert(0, os.path.dirname(HERE))
from mxv import env     # noqa: E402

mx = env.import_modelx()


def _build(expr):
    m = mx.new_model()
    S = m.new_space("S")
    V = m.new_space("V")
    V.y = 0
    S.V = V
    S.new_cells("inp", formula="def inp():\n    return 5")
    V.new_cells("vc", formula="def vc():\n    return 0")
    S.new_cells("risky", formula="def risky():\n    return 10 // %s" % expr)
    S.new_cells("guarded", formula="def guarded():\n    try:\n        return risky()\n"
                                   "    except ZeroDivisionError:\n        return -1")
    return m


def _witness(expr, pre, edit):
    live = _build(expr)
    pre(live)
    v0 = live.S.guarded()          # risky fails, guarded handles it: -1
    edit(live)
    v1 = live.S.guarded()
    fresh = _build(expr)
    pre(fresh)
    edit(fresh)
    v2 = fresh.S.guarded()
    live.close()
    fresh.close()
    return None if v1 == v2 else "guarded() before the edit %r, after it %r; model with the edits only %r" % (v0, v1, v2)


def handled_cellvalue():
    return _witness("inp()", lambda m: setattr(m.S, "inp", 0), lambda m: m.S.inp.clear_at())


def handled_cellassign():
    return _witness("inp()", lambda m: setattr(m.S, "inp", 0), lambda m: setattr(m.S, "inp", 2))


def handled_attrref():
    return _witness("V.y", lambda m: None, lambda m: setattr(m.V, "y", 2))


def handled_formula():
    return _witness("V.vc()", lambda m: None, lambda m: m.V.vc.set_formula("def vc():\n    return 2"))


if __name__ == "__main__":
    for n in sys.argv[1:] or ["handled_cellvalue", "handled_cellassign", "handled_attrref", "handled_formula"]:
        print(n, "->", globals()[n]())
