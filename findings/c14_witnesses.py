"""Minimal witnesses of the C14 deviation mechanisms found on the tree (same conventions as
findings/witnesses.py: each function returns None when the property holds on its scenario, or a
string describing what was observed).  `python findings/c14_witnesses.py [ids...]`.

S  consecutive failed directory saves rotate each partial output into _BAK1
X  a zip save whose temporary directory is on another file system copies the archive into place;
   a fault during that copy left a truncated archive at the destination (repaired: /repo a6ca415)
"""
import os
import shutil
import sys
import tempfile
import threading
import warnings

HERE = os.path.dirname(os.path.abspath(__file__))
sys.path.insert(0, os.path.dirname(HERE))
from mxv import env     # noqa: E402

mx = env.import_modelx()
warnings.simplefilter("ignore")


def _reset():
    from mxv.mxutil import reset_session
    reset_session()
    m = mx.new_model("M")
    A = m.new_space("A")
    A.new_cells("f", formula="lambda x: x + gen")
    A.gen = 1
    return m


def _gen_at(path):
    """generation marker of a complete readable copy at `path`, else None"""
    if not os.path.exists(path):
        return None
    try:
        r = mx.read_model(path, name="Probe")
    except Exception:     # noqa
        for n in [n for n in mx.get_models() if n.startswith("Probe")]:
            mx.get_models()[n].close()
        return None
    try:
        return r.A.gen if r.A.f(1) == 1 + r.A.gen else None
    except Exception:     # noqa
        return None
    finally:
        r.close()


def S():
    """two failed directory saves in a row: the last good save is at neither <path> nor <path>_BAK1"""
    m = _reset()
    d = tempfile.mkdtemp(prefix="mxv_c14w_")
    try:
        p = os.path.join(d, "m")
        m.write(p)                          # generation 1, complete
        m.A.gen = 2
        m.A.bad = threading.Lock()          # unpicklable: every later save fails after files were written
        for _ in range(2):
            try:
                m.write(p)
            except Exception:     # noqa
                pass
            else:
                return "witness broken: the save did not fail"
        where = {s or "<path>": _gen_at(p + s) for s in ("", "_BAK1", "_BAK2", "_BAK3")}
        if where["<path>"] == 1 or where["_BAK1"] == 1:
            return None
        return "after two failed saves generation 1 is at %s (listing %s)" % (
            [k for k, v in where.items() if v == 1] or "no copy", sorted(os.listdir(d)))
    finally:
        shutil.rmtree(d, ignore_errors=True)


def X():
    """zip save with the temp dir on another file system (rename -> EXDEV, shutil.move copies): after a write
    error during that copy <path> is absent or a complete archive, nothing stays beside it, the last good copy
    is intact at <path> or <path>_BAK1  (repaired in /repo a6ca415; kept as a regression probe)"""
    from mxv import c14_fault as F
    import zipfile
    m = _reset()
    base = os.path.realpath(tempfile.mkdtemp(prefix="mxv_c14w_"))
    old = tempfile.tempdir
    try:
        os.mkdir(os.path.join(base, "tmp"))
        os.mkdir(os.path.join(base, "work"))
        tempfile.tempdir = os.path.join(base, "tmp")
        p = os.path.join(base, "work", "m.zip")
        m.zip(p)                            # generation 1, complete
        m.A.gen = 2
        with F.armed(base, wk=10 ** 9, xdev=True) as st:     # counting run: which write() calls copy the archive
            m.zip(p)                                          # out of the temp dir (generation 2, complete)
            writes = list(st.wlog)
        dst = [j for j, (name, _) in enumerate(writes, 1) if name.startswith("work/")]
        if not dst:
            return "witness broken: the archive was not copied out of the temporary directory"
        m.A.gen = 3
        try:
            # a transient write error while the archive is copied (the clean-up of the save can run afterwards)
            with F.armed(base, wk=dst[0], xdev=True, wpersistent=False):
                m.zip(p)
        except OSError:
            pass
        else:
            return "witness broken: the save did not fail"
        probs = []
        if os.path.exists(p) and _gen_at(p) is None:
            probs.append("the destination exists (%d bytes, is_zipfile=%s) but is not a readable archive"
                         % (os.path.getsize(p), zipfile.is_zipfile(p)))
        if 2 not in (_gen_at(p), _gen_at(p + "_BAK1")):
            probs.append("the last good generation is at neither <path> nor <path>_BAK1")
        stray = sorted(n for n in os.listdir(os.path.join(base, "work"))
                       if n not in ("m.zip", "m.zip_BAK1", "m.zip_BAK2", "m.zip_BAK3"))
        if stray:
            probs.append("left beside the destination: %s" % stray)
        return "; ".join(probs) or None
    finally:
        tempfile.tempdir = old
        shutil.rmtree(base, ignore_errors=True)


ALL = [S, X]


if __name__ == "__main__":
    want = sys.argv[1:]
    bad = 0
    for fn in ALL:
        if want and fn.__name__ not in want:
            continue
        try:
            r = fn()
        except Exception:     # noqa
            import traceback
            r = "witness itself raised: " + traceback.format_exc().strip().splitlines()[-1]
        print("%-2s %-6s %s" % (fn.__name__, "FAILS" if r else "holds", r or fn.__doc__))
        bad += bool(r)
    sys.exit(1 if bad else 0)
