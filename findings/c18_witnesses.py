"""Minimal witnesses of the C18 deviations seen on the tree (IOSpec lifetime / file locations).

Same conventions as findings/witnesses.py: each function builds the smallest history that exposes one
mechanism against the real modelx and returns None when the property holds on it, or a string saying
what was observed.  `python findings/c18_witnesses.py [ids...]` prints one line per mechanism.
"""
import os
import shutil
import sys
import tempfile
import warnings

HERE = os.path.dirname(os.path.abspath(__file__))
sys.path.insert(0, os.path.dirname(HERE))
from mxv import env     # noqa: E402

mx = env.import_modelx()
warnings.simplefilter("ignore")
import pandas as pd     # noqa: E402


def _reset():
    from mxv.mxutil import reset_session
    reset_session()
    m = mx.new_model("M")
    A = m.new_space("A")
    B = m.new_space("B", bases=A)
    C = m.new_space("C")
    return m, A, B, C


def _df(k=1):
    return pd.DataFrame({"a": [k, k + 1]})


def _answers(m, v):
    try:
        return m.get_spec(v)
    except Exception:     # noqa
        return None


def SAME():
    """assigning to a reference the value it already holds (its only reference) ends the spec"""
    m, A, B, C = _reset()
    df = _df()
    A.new_pandas("x", "f.xlsx", df, "excel", sheet="s")
    A.x = df
    if A.x is df and not m.iospecs:
        return "A.x is still bound to the frame but model.iospecs == []"
    return None


def SQUEEZE():
    """update_pandas from a Series to a one-column DataFrame: the file is read back as a Series"""
    m, A, B, C = _reset()
    s = pd.Series([1, 2, 3], name="nm")
    A.new_pandas("x", "f.xlsx", s, "excel", sheet="s")
    df = pd.DataFrame({"a": [1, 2]}, index=pd.Index(["r0", "r1"], name="k"))
    m.update_pandas(s, df)
    d = tempfile.mkdtemp(prefix="mxv_c18w_")
    try:
        m.write(os.path.join(d, "w"))
        r = mx.read_model(os.path.join(d, "w"), name="R")
        v = r.A.x
        if not (isinstance(v, pd.DataFrame) and v.equals(df)):
            return "saved a DataFrame, read back %s" % type(v).__name__
    finally:
        shutil.rmtree(d, ignore_errors=True)
    return None


def DELSPACE():
    """deleting the space that holds the last reference leaves the spec alive"""
    m, A, B, C = _reset()
    df = _df()
    C.new_pandas("x", "f.xlsx", df, "excel", sheet="s")
    del m.C
    if m.iospecs or _answers(m, df) is not None:
        return "no reference is bound to the frame, model.iospecs == %r" % (m.iospecs,)
    return None


def SCALAR():
    """new_pandas under the name of a scalar cells: accepted, assigns the cells' value, binds no reference,
    and the spec stays in the manager (the location is never released)"""
    m, A, B, C = _reset()
    A.new_cells("sc", formula="lambda: 1")
    df = _df()
    try:
        A.new_pandas("sc", "f.xlsx", df, "excel", sheet="s")
    except Exception:     # noqa
        return None
    if "sc" in A._own_refs:
        return None
    try:
        C.new_pandas("y", "f.xlsx", _df(2), "excel", sheet="s")
    except Exception as e:     # noqa
        return "no reference was created, yet the location is claimed: %s %s; get_spec(df) -> %r" % (
            type(e).__name__, e, _answers(m, df))
    return None


def UPDBOUND():
    """update_pandas onto a value that is already bound elsewhere overwrites that value's reference list"""
    m, A, B, C = _reset()
    df, dn = _df(1), _df(9)
    A.new_pandas("x", "f.xlsx", df, "excel", sheet="s")
    C.y = dn
    m.update_pandas(df, dn)
    del A.x
    out = None
    if C.y is dn and not m.iospecs:
        out = "C.y is still bound to the updated value but model.iospecs == []"
    try:
        del C.y
    except AssertionError:
        out = (out or "") + "; del C.y raises AssertionError from ReferenceManager.del_ref"
    return out


def XMODEL():
    """absolute path + the value bound in a second model: deleting the second model's reference ends the
    first model's spec"""
    m, A, B, C = _reset()
    m2 = mx.new_model("M2")
    S = m2.new_space("S")
    d = tempfile.mkdtemp(prefix="mxv_c18w_")
    try:
        df = _df()
        A.new_pandas("x", os.path.join(d, "g.xlsx"), df, "excel", sheet="s")
        S.y = df
        listed = list(m2.iospecs)
        del S.y
        if A.x is df and not m.iospecs:
            return "M.A.x is still bound but M.iospecs == [] (M2.iospecs listed %r before)" % (listed,)
    finally:
        shutil.rmtree(d, ignore_errors=True)
    return None


def ABS2REL():
    """a spec moved from an absolute to a relative path: the IOManager files it under (no model, relative path); an
    occupied relative location of the model is not seen, and the spec that lived there is lost while still bound"""
    m, A, B, C = _reset()
    d = tempfile.mkdtemp(prefix="mxv_c18w_")
    try:
        d1, d2 = _df(1), _df(2)
        A.new_pandas("w", "iox/c0.csv", d1, "csv")
        B.new_pandas("y", os.path.join(d, "h0.csv"), d2, "csv")
        try:
            m.get_spec(d2).path = "iox/c0.csv"
        except ValueError:
            return None
        try:
            m.get_spec(d1)
        except ValueError:
            return "the move onto the occupied location iox/c0.csv was accepted; M.A.w is still bound but its spec is gone"
    finally:
        shutil.rmtree(d, ignore_errors=True)
    return None


def DOTDOT():
    """'d/../d/f.xlsx' is taken as a location different from 'd/f.xlsx': two specs, one file"""
    m, A, B, C = _reset()
    d1, d2 = _df(1), _df(2)
    A.new_pandas("x", "d/f.xlsx", d1, "excel", sheet="s")
    try:
        C.new_pandas("y", "d/../d/f.xlsx", d2, "excel", sheet="s")
    except Exception:     # noqa
        return None
    d = tempfile.mkdtemp(prefix="mxv_c18w_")
    try:
        m.write(os.path.join(d, "w"))
        back = pd.read_excel(os.path.join(d, "w", "d", "f.xlsx"), sheet_name="s", index_col=0)
        lost = [n for n, v in (("A.x", d1), ("C.y", d2)) if not back.equals(v)]
        return "two live specs claim d/f.xlsx sheet s; after saving the file does not hold %s" % lost
    finally:
        shutil.rmtree(d, ignore_errors=True)


def RESPEC():
    """a second new_pandas for a value that already has a spec: the second spec is never released"""
    m, A, B, C = _reset()
    df = _df()
    A.new_pandas("x", "f.xlsx", df, "excel", sheet="s")
    try:
        C.new_pandas("y", "g.xlsx", df, "excel", sheet="s")
    except Exception:     # noqa
        return None
    del A.x
    del C.y
    left = _answers(m, df)
    if left is not None:
        return "no reference is bound to the frame, get_spec still answers %r (model.iospecs == %r)" % (
            left, m.iospecs)
    return None


ALL = [SAME, SQUEEZE, DELSPACE, SCALAR, UPDBOUND, XMODEL, DOTDOT, RESPEC]

if __name__ == "__main__":
    want = sys.argv[1:]
    for fn in ALL:
        if want and fn.__name__ not in want:
            continue
        try:
            r = fn()
        except Exception as e:     # noqa
            r = "witness raised %s: %s" % (type(e).__name__, e)
        print("%-9s %s" % (fn.__name__, "holds" if r is None else "DEVIATES: " + r))
