"""Minimal witnesses of the C15 (export) deviation mechanisms found on the unchanged tree by
mxv/props/c15.py.  Same conventions as findings/witnesses.py: each function builds the smallest
model that exposes one mechanism, exports it, evaluates in a child process in which modelx cannot
be imported, and returns None when the package agrees with the model, or a string describing
what was observed.  `python findings/c15_witnesses.py [names...]` prints one line per mechanism.
"""
import json
import os
import shutil
import subprocess
import sys
import tempfile
import warnings

HERE = os.path.dirname(os.path.abspath(__file__))
sys.path.insert(0, os.path.dirname(HERE))
from mxv import env     # noqa: E402

mx = env.import_modelx()
warnings.simplefilter("ignore")

_CHILD = r"""
import sys, json
sys.modules['modelx'] = None
sys.path.insert(0, sys.argv[1])
out = []
try:
    from W_nomx import mx_model as m
except BaseException as e:
    print(json.dumps({"import": type(e).__name__ + ": " + str(e)[:150]})); sys.exit(0)
for expr in json.loads(sys.argv[2]):
    try:
        out.append(repr(eval(expr, {"m": m})))
    except BaseException as e:
        out.append("ERR " + type(e).__name__ + ": " + str(e)[:100])
print(json.dumps({"vals": out}))
"""


def _reset():
    from mxv.mxutil import reset_session
    reset_session()
    return mx.new_model("M")


def _compare(m, exprs):
    """evaluate python expressions over `m` in the model and in the exported package"""
    want = []
    for e in exprs:
        try:
            want.append(repr(eval(e, {"m": m})))
        except Exception as ex:     # noqa
            want.append("ERR " + type(ex).__name__)
    d = tempfile.mkdtemp(prefix="mxv_w15_")
    try:
        try:
            m.export(os.path.join(d, "W_nomx"))
        except Exception as ex:     # noqa
            return "export raised %s" % type(ex).__name__
        p = subprocess.run([sys.executable, "-c", _CHILD, d, json.dumps(exprs)], stdout=subprocess.PIPE,
                           stderr=subprocess.PIPE, timeout=120)
        got = json.loads(p.stdout.decode().strip().splitlines()[-1])
        if "import" in got:
            return "importing the package fails: %s" % got["import"]
        bad = ["%s: model %s, package %s" % (e, w, g) for e, w, g in zip(exprs, want, got["vals"]) if w != g]
        return "; ".join(bad) or None
    finally:
        shutil.rmtree(d, ignore_errors=True)


def inf_reference():
    """a float reference that is not finite is written as the bare name inf / nan"""
    m = _reset()
    A = m.new_space("A")
    A.r, A.s, A.v = float("inf"), float("-inf"), float("nan")
    A.new_cells("c0", formula="def c0(x):\n    return (x < r, x > s, v != v)")
    return _compare(m, ["m.A.c0(1)"])


def keyword_named_like_global():
    """a keyword argument whose name is also read as a global in the same formula becomes `self.k=...`"""
    m = _reset()
    A = m.new_space("A")
    A.k = 2
    A.new_cells("c0", formula="def c0(x, k=1):\n    return x * k")
    A.new_cells("c1", formula="def c1(x):\n    return c0(x, k=k)")
    return _compare(m, ["m.A.c1(3)"])


def parenthesised_name():
    """a global name written in parentheses becomes `self.(r)`"""
    m = _reset()
    A = m.new_space("A")
    A.r = 2
    A.new_cells("c0", formula="def c0(x):\n    return (r) * x")
    return _compare(m, ["m.A.c0(3)"])


def method_of_local_class():
    """a global read inside a method of a class defined in the formula is bound to the method's own self"""
    m = _reset()
    A = m.new_space("A")
    A.r = 2
    A.new_cells("c0", formula="def c0(x):\n    class K:\n        def m(self, z):\n            return z + r\n"
                              "    return K().m(x)")
    return _compare(m, ["m.A.c0(3)"])


def comprehension_target_named_like_global():
    """a comprehension variable named like a reference that the formula also reads outside the comprehension
    is rewritten to an attribute of the space: the reference is overwritten, later reads see the last loop value"""
    m = _reset()
    A = m.new_space("A")
    A.r = 7
    A.new_cells("c0", formula="def c0(x):\n    return sum([r for r in range(x)]) + r")
    A.new_cells("c1", formula="def c1(x):\n    return x + r")
    return _compare(m, ["m.A.c0(3)", "m.A.c1(1)"])


def dunder_builtin():
    """builtins whose names start and end with two underscores are treated as model names"""
    m = _reset()
    A = m.new_space("A")
    A.new_cells("c0", formula="def c0(x):\n    return __import__('math').floor(x / 2)")
    return _compare(m, ["m.A.c0(3)"])


def class_attribute_named_like_global():
    """`class K: w = w` reads the global w in Python; the package leaves the right-hand side unprefixed"""
    m = _reset()
    A = m.new_space("A")
    A.w = 5
    A.new_cells("c0", formula="def c0(x):\n    class K:\n        w = w\n    return K.w + x")
    return _compare(m, ["m.A.c0(1)"])


def model_reference_named_like_cells():
    """a model-level reference named like a cells of a space: in the model the cells wins inside that space,
    in the package the reference (an instance attribute) hides the method"""
    m = _reset()
    A = m.new_space("A")
    A.new_cells("c0", formula="def c0(x):\n    return x + 1")
    A.new_cells("c1", formula="def c1(x):\n    return c0(x) * 2")
    m.c0 = 50
    return _compare(m, ["m.A.c0(1)", "m.A.c1(1)"])


def try_scopes_in_handler_and_else():
    """a try statement with nested scopes (lambda / comprehension / def) in both an except handler and the
    else block: symtable lists the else block's scopes first, the scope/table pairing is off by one"""
    m = _reset()
    A = m.new_space("A")
    A.r = 2
    A.new_cells("c0", formula=(
        "def c0(x):\n    try:\n        t = 6 // x\n    except ZeroDivisionError:\n"
        "        t = (lambda z: z + r)(1)\n    else:\n        t += sum(i + r for i in range(2))\n    return t"))
    return _compare(m, ["m.A.c0(0)", "m.A.c0(1)"])


def param_formula_refs():
    """references returned by a parameter formula ({'refs': ...}) do not exist in the package's ItemSpaces"""
    m = _reset()
    P = m.new_space("P", formula="def _formula(p, q=2):\n    return {'refs': {'t2': p * 10 + q}}")
    P.new_cells("c0", formula="def c0(x):\n    return t2 + x")
    return _compare(m, ["m.P[1].c0(1)", "m.P(2, 3).c0(0)"])


def param_formula_base():
    """a parameter formula choosing another base ({'base': ...}) is ignored: the package instantiates P itself"""
    m = _reset()
    B = m.new_space("B")
    B.r = 7
    B.new_cells("c0", formula="def c0(x):\n    return x + r")
    P = m.new_space("P", formula="def _formula(p):\n    return {'base': _space.model.B}")
    P.new_cells("c0", formula="def c0(x):\n    return -1")
    return _compare(m, ["m.P[1].c0(1)"])


def param_named_like_builtin():
    """a parameter of a parametrised space named like a built-in is left unqualified: in the package's ItemSpaces
    the name denotes the built-in function, in the model the argument"""
    m = _reset()
    P = m.new_space("P", formula="def _formula(p, oct=3):\n    return None")
    P.new_cells("c0", formula="def c0(x):\n    return p * 10 + oct + x")
    return _compare(m, ["m.P[1].c0(1)", "m.P(2, 5).c0(0)"])


ALL = [inf_reference, keyword_named_like_global, parenthesised_name, method_of_local_class,
       comprehension_target_named_like_global, dunder_builtin, class_attribute_named_like_global,
       model_reference_named_like_cells, try_scopes_in_handler_and_else, param_formula_refs, param_formula_base,
       param_named_like_builtin]

if __name__ == "__main__":
    names = sys.argv[1:]
    for f in ALL:
        if names and f.__name__ not in names:
            continue
        try:
            r = f()
        except Exception as e:     # noqa
            r = "witness raised %s: %s" % (type(e).__name__, e)
        print("%-42s %s" % (f.__name__, "holds" if r is None else r))
